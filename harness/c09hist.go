package main

import (
	"bytes"
	"encoding/hex"
	stdjson "encoding/json"
	"fmt"
	"math/big"
	"net"
	"net/netip"
	"os"
	"os/exec"
	"path/filepath"
	"reflect"
	"runtime"
	"sort"
	"strconv"
	"strings"
	"sync"
	"time"

	"github.com/segmentio/encoding/json"
	"github.com/segmentio/encoding/proto"
	"github.com/segmentio/encoding/thrift"
)

// C09 — history independence of codec construction.
//
// "Each call returns exactly what it would have returned running alone": the codec that a package builds for a type must be
// a function of the type alone, never of what the process-wide codec cache happened to hold when it was built. The
// generator below declares a zoo of named types whose codec depends on the context they are used in (pointer- and
// value-receiver MarshalJSON / MarshalText / UnmarshalJSON / UnmarshalText types, structs holding them by value, in
// arrays, embedded; custom proto messages; thrift unions, sets, recursive types), derives for every base type T a FAMILY of
// types that reach T through every kind of context (T, *T, []T, [2]T, map[string]T, struct{F T}, any(T), any(&T), …), and
// turns every (family member, entry point) pair into a CALL.
//
//	conc.hist <pkg> <seed> <G> <mode> <pct> <race>
//	    starts a FRESH child process (`vh exec conc.histrun …`: a type has its first use once per process) that executes
//	    a random permutation of pct% of the calls of pkg (plus some repeats: second uses) on G goroutines — G = 1: one after
//	    the other; mode "free": one start barrier; mode "step": a barrier before every round, so that the k-th calls of all
//	    goroutines are first uses at the same time — and compares EVERY result with two history-independent oracles:
//	      alone: what the same call returns when it is the very first library call of a fresh process
//	             (`vh exec conc.histalone <pkg> <call>`, one process per call, computed once per run);
//	      ref:   for json, encoding/json on the same value or text (byte for byte for Marshal / Encoder.Encode; the decoded
//	             value, dumped structurally, and whether an error was returned for Unmarshal / Decoder.Decode).
//	    proto and thrift decode calls take the ALONE result of the matching encode call as their input.
//	    impl = "ok:<calls>" or the first calls whose result depends on the history; oracle = "ok:<calls>".

// histCall is one library call on a freshly built value.
type histCall struct {
	name string
	dep  string                 // name of the call whose alone result (hex) is the input of this one ("" = none)
	run  func(in []byte) string // the library call; canonical rendering of what it returned
	ref  func() string          // the same call on encoding/json (nil = no reference implementation)
}

// hMember is one member of the family of a base type: how to build a value of it, a pointer to decode into, and (json) a
// text that decodes into it.
type hMember struct {
	name string
	val  func() any
	ptr  func() any
	src  string
}

// ---- the family of a base type (json) ---------------------------------------------------------------------------------

type hwF[T any] struct{ F T }
type hwI struct{ I any }
type hwH[T any] struct {
	S []T
	A [2]T
	M map[string]T
	P *T
	I any
}
type hwO[T any] struct {
	F T   `json:"f,omitempty"`
	P *T  `json:"p,omitempty"`
	S []T `json:"s,omitempty"`
}
type hwOneP[T any] struct{ P *T }
type hwE[T any] struct {
	hwF[T]
	X int
}

func hFamily[T any](base string, mk func(int) T, src func(int) string) []hMember {
	p := func(i int) *T { v := mk(i); return &v }
	s1, s2 := src(1), src(2)
	ms := []hMember{
		{"T", func() any { return mk(1) }, func() any { return new(T) }, s1},
		{"*T", func() any { return p(2) }, func() any { return new(*T) }, s2},
		{"[]T", func() any { return []T{mk(1), mk(2)} }, func() any { return new([]T) }, "[" + s1 + "," + s2 + "]"},
		{"[2]T", func() any { return [2]T{mk(2), mk(1)} }, func() any { return new([2]T) }, "[" + s2 + "," + s1 + "]"},
		{"[1]T", func() any { return [1]T{mk(1)} }, func() any { return new([1]T) }, "[" + s1 + "]"},
		{"map[string]T", func() any { return map[string]T{"a": mk(1), "b": mk(2)} }, func() any { return new(map[string]T) }, `{"a":` + s1 + `,"b":` + s2 + `}`},
		{"struct{F T}", func() any { return hwF[T]{mk(1)} }, func() any { return new(hwF[T]) }, `{"F":` + s1 + `}`},
		{"*struct{F T}", func() any { return &hwF[T]{mk(2)} }, func() any { return new(*hwF[T]) }, `{"F":` + s2 + `}`},
		{"[]*T", func() any { return []*T{p(1), nil, p(2)} }, func() any { return new([]*T) }, "[" + s1 + ",null," + s2 + "]"},
		{"[]any{T,&T}", func() any { return []any{mk(1), p(2)} }, func() any { return new([]any) }, "[" + s1 + "," + s2 + "]"},
		{"map[string]any{T,&T}", func() any { return map[string]any{"v": mk(1), "p": p(2)} }, func() any { return new(map[string]any) }, `{"v":` + s1 + `}`},
		{"struct{I any(T)}", func() any { return hwI{mk(1)} }, func() any { return new(hwI) }, `{"I":` + s1 + `}`},
		{"struct{I any(&T)}", func() any { return hwI{p(2)} }, func() any { return &hwI{I: new(T)} }, `{"I":` + s2 + `}`},
		{"holder", func() any { return hwH[T]{[]T{mk(1)}, [2]T{mk(1), mk(2)}, map[string]T{"k": mk(2)}, p(1), p(2)} }, func() any { return new(hwH[T]) },
			`{"S":[` + s1 + `],"A":[` + s1 + `,` + s2 + `],"M":{"k":` + s2 + `},"P":` + s1 + `,"I":` + s2 + `}`},
		{"omitempty", func() any { return hwO[T]{mk(1), p(2), []T{mk(1)}} }, func() any { return new(hwO[T]) }, `{"f":` + s1 + `,"p":` + s2 + `,"s":[` + s1 + `]}`},
		{"struct{P *T}", func() any { return hwOneP[T]{p(1)} }, func() any { return new(hwOneP[T]) }, `{"P":` + s1 + `}`},
		{"embedded", func() any { return hwE[T]{hwF[T]{mk(1)}, 3} }, func() any { return new(hwE[T]) }, `{"F":` + s1 + `,"X":3}`},
		{"*[]T", func() any { return &[]T{mk(1)} }, func() any { return new(*[]T) }, "[" + s1 + "]"},
		{"[][]T", func() any { return [][]T{{mk(1)}, {mk(2), mk(1)}} }, func() any { return new([][]T) }, "[[" + s1 + "],[" + s2 + "," + s1 + "]]"},
		{"map[string][]T", func() any { return map[string][]T{"k": {mk(1), mk(2)}} }, func() any { return new(map[string][]T) }, `{"k":[` + s1 + `,` + s2 + `]}`},
		{"[]struct{F T}", func() any { return []hwF[T]{{mk(1)}, {mk(2)}} }, func() any { return new([]hwF[T]) }, `[{"F":` + s1 + `},{"F":` + s2 + `}]`},
		{"**T", func() any { q := p(1); return &q }, func() any { return new(**T) }, s1},
		{"map[string]*T", func() any { return map[string]*T{"a": p(1), "n": nil} }, func() any { return new(map[string]*T) }, `{"a":` + s1 + `,"n":null}`},
		{"[]map[string]T", func() any { return []map[string]T{{"a": mk(1)}} }, func() any { return new([]map[string]T) }, `[{"a":` + s1 + `}]`},
		{"[2][]T", func() any { return [2][]T{{mk(1)}, {mk(2)}} }, func() any { return new([2][]T) }, "[[" + s1 + "],[" + s2 + "]]"},
	}
	for i := range ms {
		ms[i].name = base + "/" + ms[i].name
	}
	return ms
}

// hKeyFamily: the base type as a map key (ksrc: the object key text, quoted).
func hKeyFamily[K comparable](base string, mk func(int) K, ksrc func(int) string) []hMember {
	k1, k2 := ksrc(1), ksrc(2)
	ms := []hMember{
		{"map[T]int", func() any { return map[K]int{mk(1): 1, mk(2): 2} }, func() any { return new(map[K]int) }, `{` + k1 + `:1,` + k2 + `:2}`},
		{"struct{M map[T]string}", func() any { return struct{ M map[K]string }{map[K]string{mk(1): "x"}} }, func() any { return new(struct{ M map[K]string }) }, `{"M":{` + k1 + `:"x"}}`},
		{"[]map[T]bool", func() any { return []map[K]bool{{mk(2): true}} }, func() any { return new([]map[K]bool) }, `[{` + k2 + `:true}]`},
		{"map[T]*T", func() any { return map[K]*K{mk(1): nil} }, func() any { return new(map[K]*K) }, `{` + k1 + `:null}`},
	}
	for i := range ms {
		ms[i].name = base + "/" + ms[i].name
	}
	return ms
}

// ---- the json zoo ---------------------------------------------------------------------------------------------------

// HzPMJ: MarshalJSON on the pointer.
type HzPMJ struct{ Deg int }

func (c *HzPMJ) MarshalJSON() ([]byte, error) {
	if c == nil {
		return []byte("null"), nil
	}
	return []byte(`"` + strconv.Itoa(c.Deg) + `C"`), nil
}

// HzVMJ: MarshalJSON on the value.
type HzVMJ struct{ Deg int }

func (c HzVMJ) MarshalJSON() ([]byte, error) { return []byte(`{"v":` + strconv.Itoa(c.Deg) + `}`), nil }

// HzPMT: MarshalText on the pointer.
type HzPMT struct{ N int }

func (c *HzPMT) MarshalText() ([]byte, error) {
	if c == nil {
		return []byte("Pnil"), nil
	}
	return []byte("P" + strconv.Itoa(c.N)), nil
}

// HzVMT: MarshalText on the value.
type HzVMT struct{ N int }

func (c HzVMT) MarshalText() ([]byte, error) { return []byte("V" + strconv.Itoa(c.N)), nil }

// HzPUJ: UnmarshalJSON on the pointer.
type HzPUJ struct {
	N   int
	Raw string
}

func (u *HzPUJ) UnmarshalJSON(b []byte) error { u.N, u.Raw = len(b), string(b); return nil }

// HzPUT: UnmarshalText on the pointer.
type HzPUT struct{ S string }

func (u *HzPUT) UnmarshalText(b []byte) error { u.S = "t:" + string(b); return nil }

// HzVUJ: UnmarshalJSON on the value (a map: the method can store through it).
type HzVUJ map[string]int

func (m HzVUJ) UnmarshalJSON(b []byte) error {
	if m != nil {
		m["len"] = len(b)
	}
	return nil
}

// HzRT: both directions on the pointer.
type HzRT struct {
	A int
	B string
}

func (r *HzRT) MarshalJSON() ([]byte, error) {
	if r == nil {
		return []byte("null"), nil
	}
	return []byte(`[` + strconv.Itoa(r.A) + `,` + strconv.Quote(r.B) + `]`), nil
}

func (r *HzRT) UnmarshalJSON(b []byte) error {
	var x []any
	if err := stdjson.Unmarshal(b, &x); err != nil || len(x) != 2 {
		return fmt.Errorf("HzRT: bad input")
	}
	f, _ := x[0].(float64)
	r.A = int(f)
	r.B, _ = x[1].(string)
	return nil
}

// HzTxt: MarshalText on the value, UnmarshalText on the pointer (usable as a map key).
type HzTxt struct{ K string }

func (t HzTxt) MarshalText() ([]byte, error) { return []byte("k:" + t.K), nil }
func (t *HzTxt) UnmarshalText(b []byte) error {
	t.K = strings.TrimPrefix(string(b), "k:")
	return nil
}

// HzLvl: an integer with MarshalText on the pointer.
type HzLvl int

func (l *HzLvl) MarshalText() ([]byte, error) {
	if l == nil {
		return []byte("Lnil"), nil
	}
	return []byte("L" + strconv.Itoa(int(*l))), nil
}

// HzIntV: an integer with MarshalText on the value and UnmarshalText on the pointer.
type HzIntV int

func (i HzIntV) MarshalText() ([]byte, error) { return []byte("i" + strconv.Itoa(int(i))), nil }
func (i *HzIntV) UnmarshalText(b []byte) error {
	n, err := strconv.Atoi(strings.TrimPrefix(string(b), "i"))
	*i = HzIntV(n)
	return err
}

// HzStrP: a string with MarshalJSON on the pointer.
type HzStrP string

func (s *HzStrP) MarshalJSON() ([]byte, error) {
	if s == nil {
		return []byte("null"), nil
	}
	return []byte(`{"s":` + strconv.Quote(string(*s)) + `}`), nil
}

// HzSlcP: a slice with MarshalJSON on the pointer.
type HzSlcP []int

func (s *HzSlcP) MarshalJSON() ([]byte, error) {
	if s == nil {
		return []byte("null"), nil
	}
	return []byte(`"len=` + strconv.Itoa(len(*s)) + `"`), nil
}

// HzSlcV: a slice with MarshalText on the value and UnmarshalText on the pointer.
type HzSlcV []string

func (s HzSlcV) MarshalText() ([]byte, error) { return []byte(strings.Join(s, "+")), nil }
func (s *HzSlcV) UnmarshalText(b []byte) error {
	*s = strings.Split(string(b), "+")
	return nil
}

// HzMapP: a map with MarshalJSON on the pointer; HzMapV: a map with MarshalText on the value.
type HzMapP map[string]int

func (m *HzMapP) MarshalJSON() ([]byte, error) {
	if m == nil {
		return []byte("null"), nil
	}
	return []byte(`{"n":` + strconv.Itoa(len(*m)) + `}`), nil
}

type HzMapV map[string]int

func (m HzMapV) MarshalText() ([]byte, error) { return []byte("m" + strconv.Itoa(len(m))), nil }

// HzBoth: MarshalText on the value and MarshalJSON on the pointer (which one applies depends on addressability);
// HzBoth2: the other way round.
type HzBoth struct{ N int }

func (b HzBoth) MarshalText() ([]byte, error) { return []byte("text" + strconv.Itoa(b.N)), nil }
func (b *HzBoth) MarshalJSON() ([]byte, error) {
	if b == nil {
		return []byte("null"), nil
	}
	return []byte(`{"json":` + strconv.Itoa(b.N) + `}`), nil
}

type HzBoth2 struct{ N int }

func (b HzBoth2) MarshalJSON() ([]byte, error) {
	return []byte(`{"json":` + strconv.Itoa(b.N) + `}`), nil
}
func (b *HzBoth2) MarshalText() ([]byte, error) {
	if b == nil {
		return []byte("nil"), nil
	}
	return []byte("text" + strconv.Itoa(b.N)), nil
}

// byte-sized element types with methods (slices of them are not base64 strings).
type HzByteV uint8

func (b HzByteV) MarshalJSON() ([]byte, error) { return []byte(`"b` + strconv.Itoa(int(b)) + `"`), nil }

type HzByteP uint8

func (b *HzByteP) MarshalText() ([]byte, error) {
	if b == nil {
		return []byte("nil"), nil
	}
	return []byte("B" + strconv.Itoa(int(*b))), nil
}

// composite types holding method-bearing types by value.
type HzArr [2]HzLvl
type HzEnt struct {
	Name  string
	Level HzLvl
}
type HzBig struct {
	Name string
	Ls   [2]HzLvl
	S    []HzLvl
	M    map[string]HzLvl
	P    *HzLvl
	E    HzEnt
	PE   *HzEnt
	SE   []HzEnt
	J    HzPMJ
	AJ   [1]HzPMJ
}
type HzEmb struct{ HzPMJ }
type HzEmbX struct {
	HzPMT
	X int
}
type HzEmbP struct{ *HzPMJ }
type HzEmbV struct {
	HzVMJ
	Y int
}
type HzEmbE struct {
	HzEnt
	Extra int
}
type hzHidden struct {
	A int
	L HzLvl
}
type HzEmbU struct {
	hzHidden
	Z int
}
type HzPlain struct {
	A int
	B string
	C []int
	D map[string]int
	E *int
}
type HzRec struct {
	V    HzLvl
	Kids []HzRec
	Next *HzRec
	M    map[string]HzRec
}
type HzOneP struct{ P *HzPMJ }
type HzOneM struct{ M map[string]HzLvl }
type HzOneA [1]*HzPMT
type HzIface struct {
	V any
	W stdjson.Marshaler
	X fmt.Stringer
}
type HzStrK string
type HzIntK int16

var hjOnce sync.Once
var hjMembers []hMember

func hjZoo() []hMember {
	hjOnce.Do(func() {
		add := func(ms []hMember) { hjMembers = append(hjMembers, ms...) }
		itoa := strconv.Itoa
		obj := func(k string) func(int) string { return func(i int) string { return `{"` + k + `":` + itoa(i) + `}` } }
		num := func(i int) string { return itoa(i) }
		add(hFamily("PMJ", func(i int) HzPMJ { return HzPMJ{i} }, obj("Deg")))
		add(hFamily("VMJ", func(i int) HzVMJ { return HzVMJ{i} }, obj("Deg")))
		add(hFamily("PMT", func(i int) HzPMT { return HzPMT{i} }, obj("N")))
		add(hFamily("VMT", func(i int) HzVMT { return HzVMT{i} }, obj("N")))
		add(hFamily("PUJ", func(i int) HzPUJ { return HzPUJ{i, "r"} }, func(i int) string { return `[` + itoa(i) + `,"x"]` }))
		add(hFamily("PUT", func(i int) HzPUT { return HzPUT{"s" + itoa(i)} }, func(i int) string { return `"abc` + itoa(i) + `"` }))
		add(hFamily("VUJ", func(i int) HzVUJ { return HzVUJ{"a": i} }, func(i int) string { return `{"x":` + itoa(i) + `}` }))
		add(hFamily("RT", func(i int) HzRT { return HzRT{i, "b" + itoa(i)} }, func(i int) string { return `[` + itoa(i) + `,"q"]` }))
		add(hFamily("Txt", func(i int) HzTxt { return HzTxt{"a" + itoa(i)} }, func(i int) string { return `"k:a` + itoa(i) + `"` }))
		add(hFamily("Lvl", func(i int) HzLvl { return HzLvl(i) }, num))
		add(hFamily("IntV", func(i int) HzIntV { return HzIntV(i) }, func(i int) string { return `"i` + itoa(i) + `"` }))
		add(hFamily("StrP", func(i int) HzStrP { return HzStrP("s" + itoa(i)) }, func(i int) string { return `"s` + itoa(i) + `"` }))
		add(hFamily("SlcP", func(i int) HzSlcP { return HzSlcP{i, i} }, func(i int) string { return `[` + itoa(i) + `,7]` }))
		add(hFamily("SlcV", func(i int) HzSlcV { return HzSlcV{"a", itoa(i)} }, func(i int) string { return `"a+` + itoa(i) + `"` }))
		add(hFamily("MapP", func(i int) HzMapP { return HzMapP{"a": i} }, func(i int) string { return `{"a":` + itoa(i) + `}` }))
		add(hFamily("MapV", func(i int) HzMapV { return HzMapV{"a": i} }, func(i int) string { return `{"a":` + itoa(i) + `}` }))
		add(hFamily("Both", func(i int) HzBoth { return HzBoth{i} }, obj("N")))
		add(hFamily("Both2", func(i int) HzBoth2 { return HzBoth2{i} }, obj("N")))
		add(hFamily("ByteV", func(i int) HzByteV { return HzByteV(i) }, num))
		add(hFamily("ByteP", func(i int) HzByteP { return HzByteP(i) }, num))
		add(hFamily("Arr", func(i int) HzArr { return HzArr{HzLvl(i), HzLvl(i + 1)} }, func(i int) string { return `[` + itoa(i) + `,5]` }))
		add(hFamily("Ent", func(i int) HzEnt { return HzEnt{"e", HzLvl(i)} }, func(i int) string { return `{"Name":"e","Level":` + itoa(i) + `}` }))
		add(hFamily("Big", func(i int) HzBig {
			l := HzLvl(i + 2)
			return HzBig{"n", [2]HzLvl{1, HzLvl(i)}, []HzLvl{HzLvl(i)}, map[string]HzLvl{"k": 3}, &l, HzEnt{"e", 4}, &HzEnt{"pe", 5}, []HzEnt{{"se", 6}}, HzPMJ{i}, [1]HzPMJ{{8}}}
		}, func(i int) string {
			return `{"Name":"n","Ls":[1,` + itoa(i) + `],"S":[3],"M":{"k":3},"P":4,"E":{"Name":"e","Level":4},"PE":{"Level":5},"SE":[{"Level":6}],"J":{"Deg":7},"AJ":[{"Deg":8}]}`
		}))
		add(hFamily("Emb", func(i int) HzEmb { return HzEmb{HzPMJ{i}} }, obj("Deg")))
		add(hFamily("EmbX", func(i int) HzEmbX { return HzEmbX{HzPMT{i}, 2} }, func(i int) string { return `{"N":` + itoa(i) + `,"X":2}` }))
		add(hFamily("EmbP", func(i int) HzEmbP { return HzEmbP{&HzPMJ{i}} }, obj("Deg")))
		add(hFamily("EmbV", func(i int) HzEmbV { return HzEmbV{HzVMJ{i}, 2} }, func(i int) string { return `{"Deg":` + itoa(i) + `,"Y":2}` }))
		add(hFamily("EmbE", func(i int) HzEmbE { return HzEmbE{HzEnt{"e", HzLvl(i)}, 9} }, func(i int) string { return `{"Name":"e","Level":` + itoa(i) + `,"Extra":9}` }))
		add(hFamily("EmbU", func(i int) HzEmbU { return HzEmbU{hzHidden{i, 2}, 3} }, func(i int) string { return `{"A":` + itoa(i) + `,"L":2,"Z":3}` }))
		add(hFamily("Plain", func(i int) HzPlain { return HzPlain{i, "b", []int{i}, map[string]int{"d": i}, &i} }, func(i int) string {
			return `{"A":` + itoa(i) + `,"B":"b","C":[1],"D":{"d":2},"E":3}`
		}))
		add(hFamily("Rec", func(i int) HzRec {
			return HzRec{HzLvl(i), []HzRec{{V: 2}, {V: 3, Kids: []HzRec{{V: 4}}}}, &HzRec{V: 5}, map[string]HzRec{"m": {V: 6}}}
		}, func(i int) string {
			return `{"V":` + itoa(i) + `,"Kids":[{"V":2,"Next":{"V":3}}],"Next":{"V":5},"M":{"m":{"V":6}}}`
		}))
		add(hFamily("OneP", func(i int) HzOneP { return HzOneP{&HzPMJ{i}} }, func(i int) string { return `{"P":{"Deg":` + itoa(i) + `}}` }))
		add(hFamily("OneM", func(i int) HzOneM { return HzOneM{map[string]HzLvl{"k": HzLvl(i)}} }, func(i int) string { return `{"M":{"k":` + itoa(i) + `}}` }))
		add(hFamily("OneA", func(i int) HzOneA { return HzOneA{&HzPMT{i}} }, func(i int) string { return `[{"N":` + itoa(i) + `}]` }))
		add(hFamily("Iface", func(i int) HzIface { return HzIface{&HzPMJ{i}, HzVMJ{i}, nil} }, func(i int) string { return `{"V":{"Deg":` + itoa(i) + `}}` }))
		// library types with methods
		add(hFamily("time.Time", func(i int) time.Time { return time.Date(2020, 1, i, 3, 4, 5, 600, time.UTC) }, func(i int) string { return `"2021-02-0` + itoa(i) + `T01:02:03.5Z"` }))
		add(hFamily("RawMessage", func(i int) stdjson.RawMessage { return stdjson.RawMessage(`{"r":` + itoa(i) + `}`) }, func(i int) string { return `{"raw":[` + itoa(i) + `]}` }))
		add(hFamily("Number", func(i int) json.Number { return json.Number(itoa(i) + ".5") }, func(i int) string { return itoa(i) + `.25` }))
		add(hFamily("big.Int", func(i int) big.Int { return *big.NewInt(int64(i) * 1e12) }, func(i int) string { return itoa(i) + `000000000000000000000` }))
		add(hFamily("netip.Addr", func(i int) netip.Addr { return netip.AddrFrom4([4]byte{10, 0, 0, byte(i)}) }, func(i int) string { return `"10.1.1.` + itoa(i) + `"` }))
		add(hFamily("net.IP", func(i int) net.IP { return net.IPv4(10, 0, 0, byte(i)) }, func(i int) string { return `"10.1.1.` + itoa(i) + `"` }))
		// map keys
		add(hKeyFamily("Txt", func(i int) HzTxt { return HzTxt{"a" + itoa(i)} }, func(i int) string { return `"k:a` + itoa(i) + `"` }))
		add(hKeyFamily("IntV", func(i int) HzIntV { return HzIntV(i) }, func(i int) string { return `"i` + itoa(i) + `"` }))
		add(hKeyFamily("Lvl", func(i int) HzLvl { return HzLvl(i) }, func(i int) string { return `"` + itoa(i) + `"` }))
		add(hKeyFamily("StrK", func(i int) HzStrK { return HzStrK("s" + itoa(i)) }, func(i int) string { return `"s` + itoa(i) + `"` }))
		add(hKeyFamily("IntK", func(i int) HzIntK { return HzIntK(i) }, func(i int) string { return `"` + itoa(i) + `"` }))
		add(hKeyFamily("netip.Addr", func(i int) netip.Addr { return netip.AddrFrom4([4]byte{10, 0, 0, byte(i)}) }, func(i int) string { return `"10.1.1.` + itoa(i) + `"` }))
	})
	return hjMembers
}

// hjNoRef: calls on which the current code and encoding/json disagree even when the call runs alone in a fresh process
// (compatibility differences, not history dependence; reported, and compared with the alone oracle only).
var hjNoRef = map[string]bool{}

func hErr(err error) string {
	if err == nil {
		return ""
	}
	return "err:" + err.Error()
}

// hGuard turns a panic of the call into its result (a goroutine of the child must not take the process down).
func hGuard(f func() string) (s string) {
	defer func() {
		if r := recover(); r != nil {
			s = "panic:" + fmt.Sprint(r)
		}
	}()
	return f()
}

func hjCalls() []histCall {
	var cs []histCall
	for _, m := range hjZoo() {
		m := m
		mar := func(f func(any) ([]byte, error)) func() string {
			return func() string {
				b, err := f(m.val())
				if err != nil {
					return hErr(err)
				}
				return string(b)
			}
		}
		enc := func(f func(*bytes.Buffer, any) error) func() string {
			return func() string {
				var buf bytes.Buffer
				if err := f(&buf, m.val()); err != nil {
					return hErr(err)
				}
				return buf.String()
			}
		}
		dec := func(f func(string, any) error) func() string {
			return func() string {
				p := m.ptr()
				err := f(m.src, p)
				s := hDump(p)
				if err != nil {
					// the text of an error is not part of the comparison with encoding/json; what was stored is
					return "err:" + s
				}
				return s
			}
		}
		add := func(op string, impl, ref func() string) {
			c := histCall{name: "json/" + m.name + "/" + op, run: func([]byte) string { return hGuard(impl) }}
			if !hjNoRef[c.name] {
				c.ref = func() string { return hGuard(ref) }
			}
			cs = append(cs, c)
		}
		add("Marshal", mar(json.Marshal), mar(stdjson.Marshal))
		add("Encode", enc(func(b *bytes.Buffer, v any) error { return json.NewEncoder(b).Encode(v) }),
			enc(func(b *bytes.Buffer, v any) error { return stdjson.NewEncoder(b).Encode(v) }))
		add("Unmarshal", dec(func(s string, p any) error { return json.Unmarshal([]byte(s), p) }),
			dec(func(s string, p any) error { return stdjson.Unmarshal([]byte(s), p) }))
		add("Decode", dec(func(s string, p any) error { return json.NewDecoder(strings.NewReader(s + " ")).Decode(p) }),
			dec(func(s string, p any) error { return stdjson.NewDecoder(strings.NewReader(s + " ")).Decode(p) }))
	}
	return cs
}

// hDump renders a decoded value structurally (no addresses; maps sorted).
func hDump(x any) string {
	var sb strings.Builder
	hDumpTo(&sb, reflect.ValueOf(x), 0)
	return sb.String()
}

func hDumpTo(sb *strings.Builder, v reflect.Value, depth int) {
	if !v.IsValid() {
		sb.WriteString("nil")
		return
	}
	if depth > 40 {
		sb.WriteString("…")
		return
	}
	if v.CanInterface() {
		switch x := v.Interface().(type) {
		case time.Time:
			sb.WriteString("time(" + x.Format(time.RFC3339Nano) + ")")
			return
		case big.Int:
			sb.WriteString("big(" + x.String() + ")")
			return
		case netip.Addr:
			sb.WriteString("addr(" + x.String() + ")")
			return
		}
	}
	switch v.Kind() {
	case reflect.Ptr:
		if v.IsNil() {
			sb.WriteString("nil")
			return
		}
		sb.WriteString("&")
		hDumpTo(sb, v.Elem(), depth+1)
	case reflect.Interface:
		if v.IsNil() {
			sb.WriteString("nil")
			return
		}
		sb.WriteString("(" + v.Elem().Type().String() + ")")
		hDumpTo(sb, v.Elem(), depth+1)
	case reflect.Struct:
		sb.WriteString("{")
		for i := 0; i < v.NumField(); i++ {
			if i > 0 {
				sb.WriteString(",")
			}
			sb.WriteString(v.Type().Field(i).Name + ":")
			hDumpTo(sb, v.Field(i), depth+1)
		}
		sb.WriteString("}")
	case reflect.Slice, reflect.Array:
		if v.Kind() == reflect.Slice && v.IsNil() {
			sb.WriteString("nil[]")
			return
		}
		sb.WriteString("[")
		for i := 0; i < v.Len(); i++ {
			if i > 0 {
				sb.WriteString(",")
			}
			hDumpTo(sb, v.Index(i), depth+1)
		}
		sb.WriteString("]")
	case reflect.Map:
		if v.IsNil() {
			sb.WriteString("nilmap")
			return
		}
		var es []string
		it := v.MapRange()
		for it.Next() {
			var e strings.Builder
			hDumpTo(&e, it.Key(), depth+1)
			e.WriteString("=>")
			hDumpTo(&e, it.Value(), depth+1)
			es = append(es, e.String())
		}
		sort.Strings(es)
		sb.WriteString("map[" + strings.Join(es, ",") + "]")
	case reflect.String:
		sb.WriteString(strconv.Quote(v.String()))
	case reflect.Bool:
		sb.WriteString(strconv.FormatBool(v.Bool()))
	case reflect.Int, reflect.Int8, reflect.Int16, reflect.Int32, reflect.Int64:
		sb.WriteString(strconv.FormatInt(v.Int(), 10))
	case reflect.Uint, reflect.Uint8, reflect.Uint16, reflect.Uint32, reflect.Uint64, reflect.Uintptr:
		sb.WriteString(strconv.FormatUint(v.Uint(), 10))
	case reflect.Float32, reflect.Float64:
		sb.WriteString(strconv.FormatFloat(v.Float(), 'g', -1, 64))
	default:
		sb.WriteString("<" + v.Kind().String() + ">")
	}
}

// ---- proto and thrift: message types and the contexts they are reached through ------------------------------------------

type hqN[T any] struct {
	N T `protobuf:"bytes,1,opt" thrift:"1"`
}
type hqP[T any] struct {
	P *T `protobuf:"bytes,1,opt" thrift:"1"`
}
type hqR[T any] struct {
	X int32 `protobuf:"varint,1,opt" thrift:"1"`
	R []T   `protobuf:"bytes,2,rep" thrift:"2"`
}
type hqRP[T any] struct {
	R []*T `protobuf:"bytes,1,rep" thrift:"1"`
}
type hqM[T any] struct {
	M map[string]T `protobuf:"bytes,1,rep" thrift:"1"`
}
type hqMP[T any] struct {
	M map[int32]*T `protobuf:"bytes,1,rep" thrift:"1"`
}
type hqAll[T any] struct {
	N  T                 `protobuf:"bytes,1,opt" thrift:"1"`
	P  *T                `protobuf:"bytes,2,opt" thrift:"2"`
	R  []T               `protobuf:"bytes,3,rep" thrift:"3"`
	RP []*T              `protobuf:"bytes,4,rep" thrift:"4"`
	M  map[string]T      `protobuf:"bytes,5,rep" thrift:"5"`
	MP map[int32]*T      `protobuf:"bytes,6,rep" thrift:"6"`
	E  hqN[T]            `protobuf:"bytes,7,opt" thrift:"7"`
	ER []hqR[T]          `protobuf:"bytes,8,rep" thrift:"8"`
	EM map[int64]*hqP[T] `protobuf:"bytes,9,rep" thrift:"9"`
}

// hqFamily: maps hold one entry (their wire form is then unique). top = also the bare collections (thrift).
func hqFamily[T any](base string, mk func(int) T, top bool) []hMember {
	p := func(i int) *T { v := mk(i); return &v }
	ms := []hMember{
		{"T", func() any { return mk(1) }, func() any { return new(T) }, ""},
		{"*T", func() any { return p(2) }, func() any { return new(T) }, ""},
		{"{N T}", func() any { return hqN[T]{mk(1)} }, func() any { return new(hqN[T]) }, ""},
		{"*{N T}", func() any { return &hqN[T]{mk(2)} }, func() any { return new(hqN[T]) }, ""},
		{"{P *T}", func() any { return hqP[T]{p(1)} }, func() any { return new(hqP[T]) }, ""},
		{"{R []T}", func() any { return hqR[T]{7, []T{mk(1), mk(2)}} }, func() any { return new(hqR[T]) }, ""},
		{"{R []*T}", func() any { return hqRP[T]{[]*T{p(2), p(1)}} }, func() any { return new(hqRP[T]) }, ""},
		{"{M map[string]T}", func() any { return hqM[T]{map[string]T{"k": mk(1)}} }, func() any { return new(hqM[T]) }, ""},
		{"{M map[int32]*T}", func() any { return hqMP[T]{map[int32]*T{5: p(2)}} }, func() any { return new(hqMP[T]) }, ""},
		{"all", func() any {
			return hqAll[T]{mk(1), p(2), []T{mk(1)}, []*T{p(2)}, map[string]T{"a": mk(1)}, map[int32]*T{3: p(1)}, hqN[T]{mk(2)}, []hqR[T]{{1, []T{mk(2)}}}, map[int64]*hqP[T]{9: {p(1)}}}
		}, func() any { return new(hqAll[T]) }, ""},
		{"{N {N T}}", func() any { return hqN[hqN[T]]{hqN[T]{mk(1)}} }, func() any { return new(hqN[hqN[T]]) }, ""},
		{"{R []{R []T}}", func() any { return hqR[hqR[T]]{1, []hqR[T]{{2, []T{mk(1)}}, {3, nil}}} }, func() any { return new(hqR[hqR[T]]) }, ""},
		{"{M map[string]{R []*T}}", func() any { return hqM[hqRP[T]]{map[string]hqRP[T]{"m": {[]*T{p(1)}}}} }, func() any { return new(hqM[hqRP[T]]) }, ""},
		{"{P *{M map[string]T}}", func() any { return hqP[hqM[T]]{&hqM[T]{map[string]T{"q": mk(2)}}} }, func() any { return new(hqP[hqM[T]]) }, ""},
	}
	if top {
		ms = append(ms,
			hMember{"[]T", func() any { return []T{mk(1), mk(2)} }, func() any { return new([]T) }, ""},
			hMember{"[]*T", func() any { return []*T{p(1), p(2)} }, func() any { return new([]*T) }, ""},
			hMember{"map[string]T", func() any { return map[string]T{"k": mk(1)} }, func() any { return new(map[string]T) }, ""},
			hMember{"[][]T", func() any { return [][]T{{mk(1)}, {mk(2), mk(1)}} }, func() any { return new([][]T) }, ""},
			hMember{"map[int64][]*T", func() any { return map[int64][]*T{4: {p(1)}} }, func() any { return new(map[int64][]*T) }, ""},
			hMember{"**T", func() any { q := p(1); return &q }, func() any { return new(*T) }, ""},
		)
	}
	for i := range ms {
		ms[i].name = base + "/" + ms[i].name
	}
	return ms
}

// proto zoo
type HpPlain struct {
	A int32            `protobuf:"varint,1,opt"`
	B string           `protobuf:"bytes,2,opt"`
	C []int64          `protobuf:"varint,3,rep"`
	D map[string]int32 `protobuf:"bytes,4,rep"`
}
type HpScal struct {
	Z  int64     `protobuf:"zigzag64,1,opt"`
	F  uint32    `protobuf:"fixed32,2,opt"`
	D  float64   `protobuf:"fixed64,3,opt"`
	Bs []byte    `protobuf:"bytes,4,opt"`
	Ar [4]byte   `protobuf:"bytes,5,opt"`
	Bo bool      `protobuf:"varint,6,opt"`
	PI *int32    `protobuf:"varint,7,opt"`
	Fs []float32 `protobuf:"fixed32,8,rep"`
}

// HpCusP: a gogoproto-style custom type, methods on the pointer.
type HpCusP struct{ V uint16 }

func (c *HpCusP) Size() int { return 2 }
func (c *HpCusP) MarshalTo(b []byte) (int, error) {
	var v uint16
	if c != nil {
		v = c.V
	}
	b[0], b[1] = byte(v), byte(v>>8)
	return 2, nil
}
func (c *HpCusP) Unmarshal(b []byte) error {
	if len(b) != 2 {
		return fmt.Errorf("HpCusP: %d bytes", len(b))
	}
	c.V = uint16(b[0]) | uint16(b[1])<<8
	return nil
}

// HpCusV: a custom type whose encoding methods are on the value.
type HpCusV struct{ V uint8 }

func (c HpCusV) Size() int                       { return 1 }
func (c HpCusV) MarshalTo(b []byte) (int, error) { b[0] = c.V; return 1, nil }
func (c *HpCusV) Unmarshal(b []byte) error {
	if len(b) != 1 {
		return fmt.Errorf("HpCusV: %d bytes", len(b))
	}
	c.V = b[0]
	return nil
}

// HpMsgP: a proto.Message, methods on the pointer.
type HpMsgP struct{ S string }

func (m *HpMsgP) Size() int {
	if m == nil {
		return 0
	}
	return len(m.S)
}
func (m *HpMsgP) Marshal(b []byte) error {
	if m != nil {
		copy(b, m.S)
	}
	return nil
}
func (m *HpMsgP) Unmarshal(b []byte) error { m.S = string(b); return nil }

type HpHold struct {
	In  HpPlain          `protobuf:"bytes,1,opt"`
	Cu  HpCusP           `protobuf:"bytes,2,opt"`
	PCu *HpCusP          `protobuf:"bytes,3,opt"`
	Ms  HpMsgP           `protobuf:"bytes,4,opt"`
	PMs *HpMsgP          `protobuf:"bytes,5,opt"`
	RC  []HpCusP         `protobuf:"bytes,6,rep"`
	CV  HpCusV           `protobuf:"bytes,7,opt"`
	Raw proto.RawMessage `protobuf:"bytes,8,opt"`
	Sc  *HpScal          `protobuf:"bytes,9,opt"`
}
type HpRec struct {
	V    int64             `protobuf:"varint,1,opt"`
	Next *HpRec            `protobuf:"bytes,2,opt"`
	Kids []*HpRec          `protobuf:"bytes,3,rep"`
	M    map[string]*HpRec `protobuf:"bytes,4,rep"`
}
type HpOneP struct {
	P *HpPlain `protobuf:"bytes,1,opt"`
}
type HpOneM struct {
	M map[string]string `protobuf:"bytes,1,rep"`
}

func hpZoo() []hMember {
	var ms []hMember
	add := func(m []hMember) { ms = append(ms, m...) }
	plain := func(i int) HpPlain {
		return HpPlain{int32(i), "b", []int64{1, int64(i)}, map[string]int32{"d": int32(i)}}
	}
	add(hqFamily("Plain", plain, false))
	add(hqFamily("Scal", func(i int) HpScal {
		n := int32(i)
		return HpScal{int64(-i), 7, 1.5, []byte{1, byte(i)}, [4]byte{9, 8, 7, byte(i)}, true, &n, []float32{1, float32(i)}}
	}, false))
	add(hqFamily("CusP", func(i int) HpCusP { return HpCusP{uint16(300 + i)} }, false))
	add(hqFamily("CusV", func(i int) HpCusV { return HpCusV{uint8(i)} }, false))
	add(hqFamily("MsgP", func(i int) HpMsgP { return HpMsgP{"m" + strconv.Itoa(i)} }, false))
	add(hqFamily("Hold", func(i int) HpHold {
		return HpHold{plain(i), HpCusP{1}, &HpCusP{2}, HpMsgP{"x"}, &HpMsgP{"y"}, []HpCusP{{3}, {4}}, HpCusV{5}, proto.RawMessage{8, 1}, &HpScal{Z: int64(i)}}
	}, false))
	add(hqFamily("Rec", func(i int) HpRec {
		return HpRec{int64(i), &HpRec{V: 2}, []*HpRec{{V: 3}, {V: 4, Next: &HpRec{V: 5}}}, map[string]*HpRec{"m": {V: 6}}}
	}, false))
	add(hqFamily("OneP", func(i int) HpOneP { p := plain(i); return HpOneP{&p} }, false))
	add(hqFamily("OneM", func(i int) HpOneM { return HpOneM{map[string]string{"k": strconv.Itoa(i)}} }, false))
	return ms
}

func hpCalls() []histCall {
	var cs []histCall
	for _, m := range hpZoo() {
		m := m
		pre := "proto/" + m.name + "/"
		cs = append(cs,
			histCall{name: pre + "Marshal", run: func([]byte) string {
				return hGuard(func() string {
					b, err := proto.Marshal(m.val())
					if err != nil {
						return hErr(err)
					}
					return hex.EncodeToString(b)
				})
			}},
			histCall{name: pre + "Size", run: func([]byte) string {
				return hGuard(func() string { return strconv.Itoa(proto.Size(m.val())) })
			}},
			histCall{name: pre + "Unmarshal", dep: pre + "Marshal", run: func(in []byte) string {
				return hGuard(func() string {
					p := m.ptr()
					err := proto.Unmarshal(in, p)
					return hErr(err) + hDump(p)
				})
			}})
	}
	return cs
}

// thrift zoo
type HtPlain struct {
	A int32            `thrift:"1"`
	B string           `thrift:"2"`
	C []int64          `thrift:"3"`
	D map[string]int32 `thrift:"4"`
	E bool             `thrift:"5"`
	F float64          `thrift:"6"`
}
type HtOpt struct {
	P  *int64   `thrift:"1,optional"`
	Q  *HtPlain `thrift:"2,optional"`
	R  string   `thrift:"3,required"`
	En int8     `thrift:"4,enum"`
	B  []byte   `thrift:"5"`
}
type HtRec struct {
	Value string  `thrift:"1"`
	Next  *HtRec  `thrift:"2"`
	Kids  []HtRec `thrift:"3"`
}
type HtSet struct {
	S map[string]struct{} `thrift:"1"`
	L [][]int16           `thrift:"2"`
}
type HtUnion struct {
	A bool   `thrift:"1"`
	B int    `thrift:"2"`
	C string `thrift:"3"`
	F any    `thrift:",union"`
}
type HtList []HtPlain
type HtMap map[string]*HtPlain
type HtEmb struct {
	HtPlain
	X int32 `thrift:"10"`
}

func htZoo() []hMember {
	var ms []hMember
	add := func(m []hMember) { ms = append(ms, m...) }
	plain := func(i int) HtPlain {
		return HtPlain{int32(i), "b", []int64{1, int64(i)}, map[string]int32{"d": int32(i)}, i%2 == 1, 1.5}
	}
	add(hqFamily("Plain", plain, true))
	add(hqFamily("Opt", func(i int) HtOpt { n := int64(i); p := plain(i); return HtOpt{&n, &p, "r", 2, []byte{1, 2}} }, true))
	add(hqFamily("Rec", func(i int) HtRec {
		return HtRec{strconv.Itoa(i), &HtRec{Value: "n"}, []HtRec{{Value: "k"}, {Value: "l", Kids: []HtRec{{Value: "m"}}}}}
	}, true))
	add(hqFamily("Set", func(i int) HtSet {
		return HtSet{map[string]struct{}{strconv.Itoa(i): {}}, [][]int16{{1}, {2, int16(i)}}}
	}, true))
	add(hqFamily("Union", func(i int) HtUnion {
		if i == 1 {
			s := "s"
			return HtUnion{C: s, F: &s}
		}
		return HtUnion{B: i, F: &i}
	}, true))
	add(hqFamily("List", func(i int) HtList { return HtList{plain(i), plain(i + 1)} }, true))
	add(hqFamily("Map", func(i int) HtMap { p := plain(i); return HtMap{"k": &p} }, true))
	add(hqFamily("Emb", func(i int) HtEmb { return HtEmb{plain(i), 4} }, true))
	return ms
}

func htCalls() []histCall {
	var cs []histCall
	protos := []struct {
		name string
		p    func() thrift.Protocol
	}{{"Compact", func() thrift.Protocol { return new(thrift.CompactProtocol) }}, {"Binary", func() thrift.Protocol { return new(thrift.BinaryProtocol) }}}
	for _, m := range htZoo() {
		for _, pr := range protos {
			m, pr := m, pr
			pre := "thrift/" + m.name + "/"
			cs = append(cs,
				histCall{name: pre + "Marshal" + pr.name, run: func([]byte) string {
					return hGuard(func() string {
						b, err := thrift.Marshal(pr.p(), m.val())
						if err != nil {
							return hErr(err)
						}
						return hex.EncodeToString(b)
					})
				}},
				histCall{name: pre + "Unmarshal" + pr.name, dep: pre + "Marshal" + pr.name, run: func(in []byte) string {
					return hGuard(func() string {
						p := m.ptr()
						err := thrift.Unmarshal(pr.p(), in, p)
						return hErr(err) + hDump(p)
					})
				}})
		}
	}
	return cs
}

var histCallsMemo sync.Map

func histCalls(pkg string) []histCall {
	if c, ok := histCallsMemo.Load(pkg); ok {
		return c.([]histCall)
	}
	var cs []histCall
	switch pkg {
	case "json":
		cs = hjCalls()
	case "proto":
		cs = hpCalls()
	case "thrift":
		cs = htCalls()
	}
	histCallsMemo.Store(pkg, cs)
	return cs
}

// ---- execution ------------------------------------------------------------------------------------------------------------

// hDepInput: the input of a decode call from the alone result of the encode call it depends on.
func hDepInput(s string) []byte {
	b, err := hex.DecodeString(s)
	if err != nil {
		return nil // the encode call failed: the decode call gets an empty input
	}
	return b
}

// histExec runs `exe exec <op> args…` and returns the impl observable of its answer.
func histExec(exe string, env []string, args ...string) (string, bool) {
	cmd := exec.Command(exe, append([]string{"exec"}, args...)...)
	cmd.Env = append(append(os.Environ(), "GOTRACEBACK=none"), env...)
	var out, errb bytes.Buffer
	cmd.Stdout, cmd.Stderr = &out, &errb
	if err := cmd.Start(); err != nil {
		return "child-failed:" + err.Error(), false
	}
	done := make(chan error, 1)
	go func() { done <- cmd.Wait() }()
	select {
	case err := <-done:
		if err != nil {
			if strings.Contains(errb.String(), "DATA RACE") {
				return "race:" + firstRaceFrame(errb.String()), false
			}
			return "child-failed:" + strings.TrimSpace(lastLine(errb.String())), false
		}
	case <-time.After(120 * time.Second):
		cmd.Process.Kill()
		return "child-timeout", false
	}
	s := out.String()
	if i := strings.IndexByte(s, '\t'); i >= 0 {
		s = s[:i]
	}
	return s, true
}

var histAloneMemo sync.Map // pkg -> []string

// histAlone: the result of every call of pkg when it is the first library call of a fresh process.
func histAlone(pkg string) []string {
	if a, ok := histAloneMemo.Load(pkg); ok {
		return a.([]string)
	}
	exe, _ := os.Executable()
	calls := histCalls(pkg)
	byName := map[string]int{}
	for i, c := range calls {
		byName[c.name] = i
	}
	res := make([]string, len(calls))
	phase := func(dep bool) {
		var wg sync.WaitGroup
		sem := make(chan struct{}, runtime.NumCPU())
		for i, c := range calls {
			if (c.dep != "") != dep {
				continue
			}
			in := "-"
			if dep {
				in = hx(hDepInput(res[byName[c.dep]]))
			}
			wg.Add(1)
			sem <- struct{}{}
			go func(i int, in string) {
				defer wg.Done()
				defer func() { <-sem }()
				s, ok := histExec(exe, nil, "conc.histalone", pkg, strconv.Itoa(i), in)
				if ok {
					if u, err := strconv.Unquote(s); err == nil {
						s = u
					}
				}
				res[i] = s
			}(i, in)
		}
		wg.Wait()
	}
	phase(false)
	phase(true)
	if f := os.Getenv("VH_HIST_DUMP"); f != "" { // debugging aid: the table of alone results
		var sb strings.Builder
		for i, c := range calls {
			fmt.Fprintf(&sb, "%d\t%s\t%s\n", i, c.name, hTrunc(res[i]))
		}
		os.WriteFile(f+"."+pkg, []byte(sb.String()), 0o644)
	}
	histAloneMemo.Store(pkg, res)
	return res
}

type hBarrier struct {
	mu          sync.Mutex
	c           *sync.Cond
	n, cnt, gen int
}

func (b *hBarrier) wait() {
	b.mu.Lock()
	g := b.gen
	b.cnt++
	if b.cnt == b.n {
		b.cnt = 0
		b.gen++
		b.c.Broadcast()
	} else {
		for g == b.gen {
			b.c.Wait()
		}
	}
	b.mu.Unlock()
}

// histOrder: the calls of one run: a random pct% of the calls in random order, with a quarter of them repeated somewhere.
func histOrder(n int, seed uint64, pct int) []int {
	h := &H{rng: seed}
	var order []int
	for i := 0; i < n; i++ {
		if pct >= 100 || h.Intn(100) < pct {
			order = append(order, i)
		}
	}
	for k := len(order) / 4; k > 0; k-- {
		order = append(order, order[h.Intn(len(order))])
	}
	for i := len(order) - 1; i > 0; i-- {
		j := h.Intn(i + 1)
		order[i], order[j] = order[j], order[i]
	}
	return order
}

type histRunOut struct {
	O []int    `json:"o"` // the calls, in the order they were dealt
	R []string `json:"r"` // their results
	X []string `json:"x"` // disagreements with the reference implementation
}

// histRun (child): executes the permutation and reports every result.
func histRun(pkg string, seed uint64, G int, mode string, pct int, inputs []string) string {
	calls := histCalls(pkg)
	order := histOrder(len(calls), seed, pct)
	in := make([][]byte, len(calls))
	k := 0
	for i, c := range calls {
		if c.dep != "" {
			if k < len(inputs) {
				in[i] = unhx(inputs[k])
			}
			k++
		}
	}
	res := make([]string, len(order))
	if G <= 1 {
		for pos, i := range order {
			res[pos] = calls[i].run(in[i])
		}
	} else {
		rounds := (len(order) + G - 1) / G
		bar := &hBarrier{n: G}
		bar.c = sync.NewCond(&bar.mu)
		var wg sync.WaitGroup
		for g := 0; g < G; g++ {
			wg.Add(1)
			go func(g int) {
				defer wg.Done()
				bar.wait()
				for r := 0; r < rounds; r++ {
					if mode == "step" && r > 0 {
						bar.wait()
					}
					if pos := r*G + g; pos < len(order) {
						i := order[pos]
						res[pos] = calls[i].run(in[i])
					}
				}
			}(g)
		}
		wg.Wait()
	}
	out := histRunOut{O: order, R: res, X: []string{}}
	for pos, i := range order {
		if calls[i].ref == nil {
			continue
		}
		if want := calls[i].ref(); want != res[pos] && len(out.X) < 8 {
			out.X = append(out.X, fmt.Sprintf("%s (call %d of %d): got %s, encoding/json %s", calls[i].name, pos+1, len(order), hTrunc(res[pos]), hTrunc(want)))
		}
	}
	b, _ := stdjson.Marshal(out)
	return string(b)
}

func hTrunc(s string) string {
	s = strings.Map(func(r rune) rune {
		if r == '\t' || r == '\n' {
			return ' '
		}
		return r
	}, s)
	if len(s) > 160 {
		s = s[:160] + "…"
	}
	return s
}

func init() {
	// conc.histalone <pkg> <call> <input>: (fresh process) one call, first in its process
	ops["conc.histalone"] = func(a []string) (string, string, string) {
		calls := histCalls(a[0])
		i := atoi(a[1])
		if i < 0 || i >= len(calls) {
			return "no-such-call", "-", ""
		}
		return strconv.Quote(calls[i].run(unhx(a[2]))), "-", ""
	}
	// conc.histrun <pkg> <seed> <G> <mode> <pct> <inputs>: (fresh process) one permutation
	ops["conc.histrun"] = func(a []string) (string, string, string) {
		seed, _ := strconv.ParseUint(a[1], 10, 64)
		var inputs []string
		if a[5] != "-" {
			inputs = strings.Split(a[5], ",")
		}
		return histRun(a[0], seed, atoi(a[2]), a[3], atoi(a[4]), inputs), "-", ""
	}
	// conc.hist <pkg> <seed> <G> <mode> <pct> <race>
	ops["conc.hist"] = func(a []string) (string, string, string) {
		pkg := a[0]
		calls := histCalls(pkg)
		alone := histAlone(pkg)
		byName := map[string]int{}
		for i, c := range calls {
			byName[c.name] = i
		}
		var inputs []string
		for _, c := range calls {
			if c.dep != "" {
				inputs = append(inputs, hx(hDepInput(alone[byName[c.dep]])))
			}
		}
		inArg := "-"
		if len(inputs) > 0 {
			inArg = strings.Join(inputs, ",")
		}
		exe, _ := os.Executable()
		var env []string
		if a[5] == "1" {
			// the race detector watches the concurrent first uses when the -race build is there
			race := filepath.Join(filepath.Dir(exe), "vh-race")
			if _, err := os.Stat(race); err == nil {
				exe, env = race, []string{"GORACE=halt_on_error=1 exitcode=66"}
			}
		}
		s, ok := histExec(exe, env, "conc.histrun", pkg, a[1], a[2], a[3], a[4], inArg)
		var out histRunOut
		if ok {
			if err := stdjson.Unmarshal([]byte(s), &out); err != nil {
				s, ok = "child-bad-output:"+hTrunc(s), false
			}
		}
		want := "ok:" + strconv.Itoa(len(out.O))
		if !ok {
			return hTrunc(s), "ok", ""
		}
		var bad []string
		nbad := 0
		for pos, i := range out.O {
			if i < 0 || i >= len(calls) || pos >= len(out.R) {
				return "child-bad-output", want, ""
			}
			if out.R[pos] != alone[i] {
				nbad++
				if len(bad) < 3 {
					var before []string
					for q := pos - 1; q >= 0 && len(before) < 3; q-- {
						before = append(before, calls[out.O[q]].name)
					}
					bad = append(bad, fmt.Sprintf("%s (call %d of %d, after … %s): got %s, alone in a fresh process %s",
						calls[i].name, pos+1, len(out.O), strings.Join(before, " < "), hTrunc(out.R[pos]), hTrunc(alone[i])))
				}
			}
		}
		if nbad == 0 && len(out.X) == 0 {
			return want, want, ""
		}
		msg := fmt.Sprintf("history-dependent:%d", nbad)
		if len(bad) > 0 {
			msg += " | " + strings.Join(bad, " | ")
		}
		if len(out.X) > 0 {
			msg += " | differs-from-encoding/json:" + strings.Join(out.X[:min(3, len(out.X))], " | ")
		}
		return msg, want, ""
	}
}

// runC09Hist: the history-independence cases of C09.
func runC09Hist(h *H) {
	type cfg struct {
		g    int
		mode string
		pct  int
	}
	cfgs := []cfg{{1, "seq", 100}, {4, "step", 100}, {1, "seq", 50}, {8, "free", 100}, {2, "step", 30}, {1, "seq", 15}, {16, "step", 60}, {3, "free", 40}}
	n := map[string]int{"json": 12, "proto": 6, "thrift": 6}
	if h.Thorough() {
		n = map[string]int{"json": 240, "proto": 120, "thrift": 120}
	}
	if os.Getenv("VH_TRACE") != "" {
		defer func(t0 time.Time) { fmt.Fprintf(os.Stderr, "runC09Hist: %v\n", time.Since(t0)) }(time.Now())
	}
	for _, pkg := range []string{"json", "proto", "thrift"} {
		for i := 0; i < n[pkg]; i++ {
			c := cfgs[i%len(cfgs)]
			if i >= len(cfgs) {
				c = cfg{1 + h.Intn(12), []string{"free", "step"}[h.Intn(2)], []int{100, 75, 50, 25, 10}[h.Intn(5)]}
				if c.g == 1 {
					c.mode = "seq"
				}
			}
			race := "0"
			if c.g > 1 && i%4 == 1 {
				race = "1"
			}
			h.Do("conc.hist", pkg, strconv.FormatUint(h.U64()%1000000, 10), strconv.Itoa(c.g), c.mode, strconv.Itoa(c.pct), race)
		}
	}
}
