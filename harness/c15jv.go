package main

import (
	"fmt"
	"math"
	"reflect"
	"strconv"
	"strings"

	"github.com/segmentio/encoding/json"
)

// The value universe of the Lean buffer model (Enc/Model/Json/Buf.lean), as space separated tokens:
//   n | t | f | i <int> | s <hex> | b <hex> | B | x | a <k> V*k | o <k> F*k     F = <flags> <namehex> V   flags ⊆ "eqr" or "-"
// and its realisation as Go values: nil, bool, int64, string, []byte, float64 NaN (x: an encoder that fails), []any,
// reflect.StructOf structs with json tags (omitempty / string) and — flag r — a nil embedded *JEmbR.

type JEmbR struct{ EmbR int }

type jvParser struct{ toks []string }

func (p *jvParser) next() string {
	t := p.toks[0]
	p.toks = p.toks[1:]
	return t
}

var anyType = reflect.TypeOf((*any)(nil)).Elem()

// value returns the Go value and its static type (the type a struct field holding it gets)
func (p *jvParser) value() (reflect.Value, reflect.Type) {
	switch t := p.next(); t {
	case "n":
		return reflect.Zero(anyType), anyType
	case "t", "f":
		return reflect.ValueOf(t == "t"), reflect.TypeOf(true)
	case "i":
		n, _ := strconv.ParseInt(p.next(), 10, 64)
		return reflect.ValueOf(n), reflect.TypeOf(int64(0))
	case "s":
		return reflect.ValueOf(string(unhx(p.next()))), reflect.TypeOf("")
	case "b":
		b := unhx(p.next())
		if b == nil {
			b = []byte{}
		}
		return reflect.ValueOf(b), reflect.TypeOf([]byte(nil))
	case "B":
		return reflect.ValueOf([]byte(nil)), reflect.TypeOf([]byte(nil))
	case "x":
		return reflect.ValueOf(math.NaN()), reflect.TypeOf(float64(0))
	case "a":
		k, _ := strconv.Atoi(p.next())
		s := make([]any, k)
		for i := range s {
			v, _ := p.value()
			if v.Kind() == reflect.Interface && v.IsNil() {
				s[i] = nil
			} else {
				s[i] = v.Interface()
			}
		}
		return reflect.ValueOf(s), reflect.TypeOf([]any(nil))
	case "o":
		k, _ := strconv.Atoi(p.next())
		fields := make([]reflect.StructField, k)
		vals := make([]reflect.Value, k)
		for i := 0; i < k; i++ {
			flags, name := p.next(), string(unhx(p.next()))
			v, ft := p.value()
			if strings.Contains(flags, "r") {
				fields[i] = reflect.StructField{Name: "JEmbR", Type: reflect.TypeOf((*JEmbR)(nil)), Anonymous: true}
				vals[i] = reflect.Zero(fields[i].Type)
				continue
			}
			tag := name
			if strings.Contains(flags, "e") {
				tag += ",omitempty"
			}
			if strings.Contains(flags, "q") {
				tag += ",string"
			}
			fields[i] = reflect.StructField{Name: fmt.Sprintf("F%d", i), Type: ft, Tag: reflect.StructTag(`json:"` + tag + `"`)}
			vals[i] = v
		}
		st := reflect.StructOf(fields)
		sv := reflect.New(st).Elem()
		for i := range vals {
			sv.Field(i).Set(vals[i])
		}
		return sv, st
	default:
		panic("bad JV token " + t)
	}
}

func init() {
	// json.bufappend <prefixlen> <spare> <html> <tokens>
	ops["json.bufappend"] = func(a []string) (string, string, string) {
		pl, _ := strconv.Atoi(a[0])
		sp, _ := strconv.Atoi(a[1])
		flags := json.AppendFlags(0)
		if a[2] == "1" {
			flags = json.EscapeHTML
		}
		p := &jvParser{toks: strings.Fields(a[3])}
		v, _ := p.value()
		var x any
		if !(v.Kind() == reflect.Interface && v.IsNil()) {
			x = v.Interface()
		}
		arr := make([]byte, pl+sp+guardLen)
		for i := range arr {
			if i < pl {
				arr[i] = patternByte(i)
			} else {
				arr[i] = 0xEE
			}
		}
		res, err := json.Append(arr[:pl:pl+sp], x, flags)
		for i := 0; i < pl; i++ {
			if arr[i] != patternByte(i) {
				return "wrote-below-len", "-", ""
			}
		}
		for i := pl + sp; i < len(arr); i++ {
			if arr[i] != 0xEE {
				return "wrote-beyond-cap", "-", ""
			}
		}
		if err != nil {
			kept := len(res) >= pl
			for i := 0; kept && i < pl; i++ {
				kept = res[i] == patternByte(i)
			}
			return "err:" + b01(kept), "-", ""
		}
		return "ok:" + hx(res), "-", ""
	}
}

// genJV writes a random value of the buffer-model universe; names use a tag-safe alphabet that includes HTML characters
func (h *H) genJV(sb *strings.Builder, depth int, failOK bool) {
	r := h.Intn(14)
	switch {
	case r == 0:
		sb.WriteString("n ")
	case r == 1:
		sb.WriteString(h.Pick([]string{"t ", "f "}))
	case r == 2:
		fmt.Fprintf(sb, "i %d ", int64(h.U64())>>uint(h.Intn(64)))
	case r == 3 || r == 4:
		fmt.Fprintf(sb, "s %s ", hxz(h.jvString()))
	case r == 5 || r == 6:
		n := h.Intn([]int{4, 10, 40, 300}[h.Intn(4)])
		b := make([]byte, n)
		for i := range b {
			b[i] = byte(h.U64())
		}
		fmt.Fprintf(sb, "b %s ", hxz(b))
	case r == 7:
		sb.WriteString("B ")
	case r == 8 && failOK && h.Intn(4) == 0:
		sb.WriteString("x ")
	case r <= 10 && depth < 4:
		k := h.Intn(5)
		fmt.Fprintf(sb, "a %d ", k)
		for i := 0; i < k; i++ {
			h.genJV(sb, depth+1, failOK)
		}
	case depth < 4:
		k := h.Intn(6)
		fmt.Fprintf(sb, "o %d ", k)
		usedR := false
		for i := 0; i < k; i++ {
			name := fmt.Sprintf("%s%d", h.Pick([]string{"a", "Key", "x<y", "a&b", "k>", "n_", "é", "z.z"}), i)
			if !usedR && h.Intn(8) == 0 {
				usedR = true
				fmt.Fprintf(sb, "r %s n ", hxz([]byte("EmbR")))
				continue
			}
			flags := ""
			if h.Intn(3) == 0 {
				flags += "e"
			}
			if h.Intn(3) == 0 { // `,string`: only on the kinds encoding/json applies it to
				flags += "q"
				if flags == "" {
					flags = "-"
				}
				fmt.Fprintf(sb, "%s %s ", flags, hxz([]byte(name)))
				switch h.Intn(3) {
				case 0:
					fmt.Fprintf(sb, "i %d ", int64(h.U64())>>uint(h.Intn(64)))
				case 1:
					sb.WriteString(h.Pick([]string{"t ", "f "}))
				default:
					fmt.Fprintf(sb, "s %s ", hxz(h.jvString()))
				}
				continue
			}
			if flags == "" {
				flags = "-"
			}
			fmt.Fprintf(sb, "%s %s ", flags, hxz([]byte(name)))
			h.genJV(sb, depth+1, failOK)
		}
	default:
		fmt.Fprintf(sb, "i %d ", h.Intn(100))
	}
}

// hxz: hex, with "-" for the empty string (tokens must not be empty)
func hxz(b []byte) string {
	if len(b) == 0 {
		return "-"
	}
	return hx(b)
}

func (h *H) jvString() []byte {
	switch h.Intn(6) {
	case 0:
		return nil
	case 1:
		return []byte(h.Pick([]string{"<tag>", "a&b", "\"q\"", "back\\slash", "\n", " x", "é", "\xff", "0123456789abcdef"}))
	default:
		n := h.Intn(20)
		b := make([]byte, n)
		for i := range b {
			const alpha = "abcdefghij <>&\"\\\n\x01\x7f\xc3\xa9\xe2\x80\xa8"
			b[i] = alpha[h.Intn(len(alpha))]
		}
		return b
	}
}
