package main

import (
	"bytes"
	"errors"
	"fmt"
	"io"
	"os"
	"reflect"
	"runtime"
	"strconv"
	"strings"

	"github.com/segmentio/encoding/proto"
)

func init() {
	namedTypes["RawMessage"] = reflect.TypeOf(proto.RawMessage(nil))
	registry["C03"] = runC03
	registry["C12"] = runC12
	registry["C16"] = runC16
	registry["C07"] = runC07

	ops["proto.varint"] = func(a []string) (string, string, string) {
		v, _ := strconv.ParseUint(a[0], 10, 64)
		b := proto.AppendVarint(nil, 1, v)[1:]
		// Size through a one-field message
		type m struct{ A uint64 }
		sz := proto.Size(m{v})
		if v != 0 {
			sz--
		} else {
			sz = 1
		}
		return hx(b) + ":" + strconv.Itoa(sz), "-", ""
	}
	ops["proto.devarint"] = func(a []string) (string, string, string) {
		b := unhx(a[0])
		_, _, v, _, err := proto.Parse(append([]byte{0x08}, b...))
		if err != nil {
			return "err", "-", ""
		}
		return fmt.Sprintf("ok:%d:%d", v.Varint(), len(v)), "-", ""
	}
	ops["proto.zigzag"] = func(a []string) (string, string, string) {
		i, _ := strconv.ParseInt(a[0], 10, 64)
		u := proto.EncodeZigZag(i)
		return fmt.Sprintf("%d:%d", u, proto.DecodeZigZag(u)), "-", ""
	}
	ops["proto.marshal"] = func(a []string) (string, string, string) {
		t := parseTy(a[0])
		v := parseVal(t, a[1])
		b, err := proto.Marshal(v.Interface())
		if err != nil {
			return "err", "-", ""
		}
		return "ok:" + hx(b) + ":" + strconv.Itoa(proto.Size(v.Interface())), "-", ""
	}
	ops["proto.marshalx"] = ops["proto.marshal"] // same call; the driver has no model column for it (map order)
	ops["proto.roundtrip"] = func(a []string) (string, string, string) {
		i, o, _ := protoRoundtrip(parseTy(a[0]), a[1])
		return i, o, ""
	}
	// proto.hist <type> <val1> <val2>: history. Corrupted encodings of val1 are decoded first (errors expected and ignored),
	// then val2 makes the ordinary round trip: a failed decode must leave nothing behind (pooled scratch, caches)
	ops["proto.hist"] = func(a []string) (string, string, string) {
		t := parseTy(a[0])
		v1 := parseVal(t, a[1])
		if b1, err := proto.Marshal(v1.Interface()); err == nil && len(b1) > 0 {
			for k := 1; k <= 24 && k <= len(b1); k++ {
				c := append([]byte{}, b1...)
				c[len(c)-k] |= 0x80 // the k-th byte from the end becomes a varint continuation / an oversized length
				proto.Unmarshal(c, reflect.New(t.Reflect()).Interface())
				c = append(append([]byte{}, b1[:len(b1)-k]...), 0xff) // cut inside the last fields, then an unterminated varint
				proto.Unmarshal(c, reflect.New(t.Reflect()).Interface())
			}
			// a well-framed message whose LAST length-delimited field (at nesting depth d) ends in a truncated unknown field:
			// the failure comes after everything before it has been decoded (e.g. after the key and the value of a map entry)
			for _, at := range []int{0, 1} {
				for d := 1; d <= 4; d++ {
					if c, ok := poisonAt(b1, d, at); ok {
						proto.Unmarshal(c, reflect.New(t.Reflect()).Interface())
					}
				}
			}
		}
		i, o, _ := protoRoundtrip(t, a[2])
		return i, o, ""
	}
	// proto.bytearr <N> <L>: L bytes arrive for a [N]byte field that has neighbours; whatever the outcome, the neighbours
	// (not in the input) keep their zero values and nothing is written beyond the array
	ops["proto.bytearr"] = func(a []string) (string, string, string) {
		n, l := atoi(a[0]), atoi(a[1])
		t := reflect.StructOf([]reflect.StructField{
			{Name: "G0", Type: reflect.TypeOf(uint64(0)), Tag: `protobuf:"varint,2,opt"`},
			{Name: "A", Type: reflect.ArrayOf(n, reflect.TypeOf(byte(0))), Tag: `protobuf:"bytes,1,opt"`},
			{Name: "G1", Type: reflect.TypeOf(uint64(0)), Tag: `protobuf:"varint,3,opt"`},
			{Name: "S", Type: reflect.TypeOf(""), Tag: `protobuf:"bytes,4,opt"`},
			{Name: "B", Type: reflect.ArrayOf(8, reflect.TypeOf(byte(0))), Tag: `protobuf:"bytes,5,opt"`},
		})
		in := []byte{0x0a, byte(l)}
		for k := 0; k < l; k++ {
			in = append(in, byte(0xe0+k%16))
		}
		tgt := reflect.New(t)
		err := proto.Unmarshal(in, tgt.Interface())
		e := tgt.Elem()
		st := "ok"
		if err != nil {
			st = "err"
		}
		return fmt.Sprintf("%s;g0=%d;g1=%d;s=%q;b=%x", st, e.Field(0).Uint(), e.Field(2).Uint(), e.Field(3).String(), e.Field(4).Slice(0, 8).Bytes()),
			st + `;g0=0;g1=0;s="";b=0000000000000000`, ""
	}
	ops["proto.decode"] = func(a []string) (string, string, string) {
		t := parseTy(a[0])
		o := "-"
		if len(a) > 2 {
			o = a[2] // expected canonical value supplied by the generator
		}
		return protoDecode(t, unhx(a[1])), o, ""
	}
	ops["proto.decodeany"] = func(a []string) (string, string, string) {
		return protoDecode(parseTy(a[0]), unhx(a[1])), "-", ""
	}
	ops["proto.marshalto"] = opMarshalTo
	ops["proto.unknown"] = opUnknownInsert
	// proto.scan is registered in protoscan.go (opScan2: records before a failure, Scan and a Parse loop)
	ops["proto.alloc"] = opAlloc
}

func protoDecode(t *Ty, b []byte) string {
	tgt := reflect.New(t.Reflect())
	if err := proto.Unmarshal(b, tgt.Interface()); err != nil {
		return "err"
	}
	return "ok:" + showVal(t, tgt.Elem(), true)
}

func protoRoundtrip(t *Ty, val string) (impl, oracle string, wire []byte) {
	v := parseVal(t, val)
	x := v.Interface()
	if os.Getenv("VH_TRACE") != "" {
		fmt.Fprintln(os.Stderr, "TRACE", t.String(), "|", val)
	}
	b, err := proto.Marshal(x)
	if err != nil {
		return "marshal-err", "no-error", nil
	}
	sz := proto.Size(x)
	// determinism for map-free values is covered by the byte comparison against the model
	rt := protoDecode(t, b)
	impl = fmt.Sprintf("sz=%d;len=%d;rt=%s", sz, len(b), rt)
	oracle = fmt.Sprintf("sz=%d;len=%d;rt=ok:%s", len(b), len(b), showVal(t, v, true))
	return impl, oracle, b
}

// ---- type generator --------------------------------------------------------------------------

var protoScalars = []string{"bool", "int", "i32", "i64", "uint", "u32", "u64", "f32", "f64", "str", "bytes"}

func (h *H) genProtoScalarNoMsg() *Ty {
	for {
		t := h.genProtoScalar()
		// not generated: *RawMessage (panics in messageCodecOf, defect 39) and *[]byte (treated as a repeated field of
		// []byte through baseKindOf: memory fault) — pointer-to-slice is outside "pointer-to structs and scalars"
		if t.K != "named" && t.K != "bytes" {
			return t
		}
	}
}

func (h *H) genProtoScalar() *Ty {
	switch h.Intn(14) {
	case 0:
		return &Ty{K: "arr", N: []int{1, 3, 4, 7, 8, 9, 16, 17}[h.Intn(8)], Elem: &Ty{K: "u8"}}
	case 1:
		return &Ty{K: "named", Name: "RawMessage", Elem: &Ty{K: "bytes"}}
	}
	return &Ty{K: protoScalars[h.Intn(len(protoScalars))]}
}

func (h *H) genProtoStruct(depth int, tags bool) *Ty {
	n := h.Intn(6)
	if depth == 0 && n == 0 {
		n = 1 + h.Intn(4)
	}
	if h.Intn(25) == 0 {
		n = 20 + h.Intn(20)
	}
	t := &Ty{K: "st"}
	used := map[int]bool{}
	for i := 0; i < n; i++ {
		var ft *Ty
		r := h.Intn(20)
		switch {
		case r < 9:
			ft = h.genProtoScalar()
		case r < 11 && depth < 3:
			ft = h.genProtoStruct(depth+1, tags)
		case r < 13:
			ft = &Ty{K: "ptr", Elem: h.genProtoScalarNoMsg()}
			if depth < 3 && h.Bool() {
				ft = &Ty{K: "ptr", Elem: h.genProtoStruct(depth+1, tags)}
			}
			if h.Intn(6) == 0 {
				ft = &Ty{K: "ptr", Elem: ft}
			}
		case r < 17:
			var e *Ty
			switch h.Intn(4) {
			case 0:
				if depth < 3 {
					e = h.genProtoStruct(depth+1, tags)
				} else {
					e = h.genProtoScalar()
				}
			case 1:
				e = &Ty{K: "ptr", Elem: h.genProtoScalarNoMsg()}
				if depth < 3 && h.Bool() {
					e = &Ty{K: "ptr", Elem: h.genProtoStruct(depth+1, tags)}
				}
			default:
				e = h.genProtoScalar()
			}
			if e.K == "u8" {
				e = &Ty{K: "str"}
			}
			ft = &Ty{K: "sl", Elem: e}
		default:
			keys := []string{"str", "int", "i32", "i64", "uint", "u32", "u64", "bool"}
			var e *Ty
			switch h.Intn(4) {
			case 0:
				if depth < 3 {
					e = h.genProtoStruct(depth+1, tags)
				} else {
					e = h.genProtoScalar()
				}
			case 1:
				e = &Ty{K: "ptr", Elem: h.genProtoScalarNoMsg()}
			default:
				e = h.genProtoScalar()
			}
			ft = &Ty{K: "map", Key: &Ty{K: keys[h.Intn(len(keys))]}, Elem: e}
		}
		f := Field{Name: fmt.Sprintf("F%d", i), T: ft}
		if tags && h.Intn(3) == 0 {
			f.Tag = h.genProtoTag(ft, used, i+1)
		}
		t.Fields = append(t.Fields, f)
	}
	// explicit numbers must not collide with implicit declaration-order numbers: when any tag is used, tag all
	if tags {
		any := false
		for _, f := range t.Fields {
			if f.Tag != "" {
				any = true
			}
		}
		if any {
			for i := range t.Fields {
				if t.Fields[i].Tag == "" {
					t.Fields[i].Tag = h.genProtoTag(t.Fields[i].T, used, i+1)
				}
			}
		}
	}
	return t
}

func baseOf(t *Ty) *Ty {
	for t.K == "ptr" || t.K == "named" {
		if t.K == "named" && t.Name == "RawMessage" {
			return t
		}
		t = t.Elem
	}
	return t
}

func (h *H) genProtoTag(ft *Ty, used map[int]bool, pos int) string {
	var num int
	for {
		switch h.Intn(6) {
		case 0:
			num = []int{15, 16, 17, 127, 128, 2047, 2048, 2049, 65535}[h.Intn(9)]
		case 1:
			num = 1 + h.Intn(3000)
		default:
			num = 1 + h.Intn(40)
		}
		if !used[num] {
			break
		}
	}
	used[num] = true
	wire := "varint"
	b := baseOf(ft)
	rep := "opt"
	if h.Intn(4) == 0 {
		rep = "req" // proto2 required: encoded like optional
	}
	if ft.K == "sl" && !isByteSeq(ft) {
		rep = "rep"
		b = baseOf(ft.Elem)
	}
	switch b.K {
	case "str", "bytes", "st", "arr", "map", "named":
		wire = "bytes"
	case "f32":
		wire = "fixed32"
	case "f64":
		wire = "fixed64"
	case "i32", "int", "i64":
		switch h.Intn(4) {
		case 0:
			wire = "zigzag64"
			if b.K == "i32" {
				wire = "zigzag32"
			}
		case 1: // sfixed32 / sfixed64
			if b.K == "i32" {
				wire = "fixed32"
			} else if b.K == "i64" {
				wire = "fixed64"
			}
		}
	case "u32":
		if h.Intn(3) == 0 {
			wire = "fixed32"
		}
	case "u64":
		if h.Intn(3) == 0 {
			wire = "fixed64"
		}
	}
	if ft.K == "sl" && isByteSeq(ft) {
		wire = "bytes"
	}
	return fmt.Sprintf(`protobuf:"%s,%d,%s,name=f%d"`, wire, num, rep, pos)
}

// genProtoCase: a message type (struct or pointer to struct) and a value text.
// nilPtrInCollection: a nil pointer stored as a slice element or map value (known finding: it is written as a bare
// tag, which corrupts the rest of the message; the outcome then depends on Go's random map order).
func nilPtrInCollection(v reflect.Value) bool {
	if zooByRType[v.Type()] != nil {
		return false // a zoo leaf (protomsg.go) is opaque
	}
	switch v.Kind() {
	case reflect.Ptr:
		return !v.IsNil() && nilPtrInCollection(v.Elem())
	case reflect.Slice:
		if v.Type().Elem().Kind() == reflect.Uint8 {
			return false
		}
		for i := 0; i < v.Len(); i++ {
			e := v.Index(i)
			if e.Kind() == reflect.Ptr && e.IsNil() || nilPtrInCollection(e) {
				return true
			}
		}
	case reflect.Map:
		it := v.MapRange()
		for it.Next() {
			e := it.Value()
			if e.Kind() == reflect.Ptr && e.IsNil() || nilPtrInCollection(e) {
				return true
			}
		}
	case reflect.Struct:
		for i := 0; i < v.NumField(); i++ {
			if nilPtrInCollection(v.Field(i)) {
				return true
			}
		}
	}
	return false
}

func (h *H) genProtoCase() (*Ty, string) {
	for {
		t, s := h.genProtoCase1()
		v := parseVal(t, s)
		// a corrupted stream (nil pointer in a collection) decoded under a random map order is not reproducible
		if hasMultiMap(t, v) && nilPtrInCollection(v) {
			continue
		}
		return t, s
	}
}

func (h *H) genProtoCase1() (*Ty, string) {
	t := h.genProtoStruct(0, h.Intn(3) == 0)
	if h.Intn(3) == 0 {
		t = &Ty{K: "ptr", Elem: t}
	}
	v := h.genVal(t, 0)
	if t.K == "ptr" && v.IsNil() {
		e := reflect.New(t.Elem.Reflect())
		v.Set(e)
	}
	return t, showVal(t, v, false)
}

func hasMultiMap(t *Ty, v reflect.Value) bool {
	if zooOf(t) != nil {
		return false // a zoo leaf (protomsg.go) is opaque: ZMap writes its entries sorted
	}
	switch v.Kind() {
	case reflect.Map:
		if v.Len() > 1 {
			return true
		}
		it := v.MapRange()
		for it.Next() {
			if hasMultiMap(unnamed(t).Elem, it.Value()) {
				return true
			}
		}
	case reflect.Ptr:
		if !v.IsNil() {
			return hasMultiMap(unnamed(t).Elem, v.Elem())
		}
	case reflect.Slice:
		if isByteSeq(t) {
			return false
		}
		for i := 0; i < v.Len(); i++ {
			if hasMultiMap(unnamed(t).Elem, v.Index(i)) {
				return true
			}
		}
	case reflect.Struct:
		for i := 0; i < v.NumField(); i++ {
			if hasMultiMap(unnamed(t).Fields[i].T, v.Field(i)) {
				return true
			}
		}
	}
	return false
}

// ---- C03: round trip, Size, determinism -------------------------------------------------------

func (h *H) protoPrimitives() {
	vals := []uint64{0, 1, 127, 128, 129, 16383, 16384, 1<<21 - 1, 1 << 21, 1<<28 - 1, 1 << 28, 1<<35 - 1, 1 << 35, 1<<42 - 1, 1 << 42,
		1<<49 - 1, 1 << 49, 1<<56 - 1, 1 << 56, 1<<63 - 1, 1 << 63, 1<<64 - 1}
	for i := 0; i < 300; i++ {
		vals = append(vals, h.U64()>>uint(h.Intn(64)))
	}
	for _, v := range vals {
		h.Do("proto.varint", strconv.FormatUint(v, 10))
		h.Do("proto.zigzag", strconv.FormatInt(int64(v), 10))
		h.Do("proto.zigzag", strconv.FormatInt(-int64(v), 10))
	}
	// varint decoding: valid, over-long, overflowing, truncated
	for i := 0; i < 400; i++ {
		n := 1 + h.Intn(12)
		b := make([]byte, n)
		for j := range b {
			b[j] = byte(h.U64()) | 0x80
		}
		switch h.Intn(4) {
		case 0:
			b[n-1] &= 0x7f
		case 1:
			b[n-1] = byte(h.Intn(3))
		case 2:
			b[h.Intn(n)] &= 0x7f
		}
		h.Do("proto.devarint", hx(b))
	}
	for _, s := range []string{"00", "01", "7f", "8000", "8100", "ffffffffffffffffff01", "ffffffffffffffffff02", "ffffffffffffffffff7f",
		"80808080808080808000", "8080808080808080808000", "ffffffffffffffffffff01", "ff", "-", "80"} {
		h.Do("proto.devarint", s)
	}
}

func runC03(h *H) {
	h.protoPrimitives()
	N := 1500
	if h.Thorough() {
		N = 25000
	}
	for i := 0; i < N; i++ {
		t, val := h.genProtoCase()
		ts := t.String()
		v := parseVal(t, val)
		op := "proto.marshal" // bytes and Size against the model, byte for byte
		if hasMultiMap(t, v) {
			op = "proto.marshalx"
			h.Count("multimap_values", 1)
		}
		im, _ := h.DoRisky(op, ts, val)
		p := strings.Split(im, ":")
		if len(p) != 3 || p[0] != "ok" {
			// Marshal failed / crashed: "For types without user-supplied marshalling methods Marshal never fails"
			h.Fail(op, []string{ts, val}, im, "ok")
			continue
		}
		wire := unhx(p[1])
		h.DoRisky("proto.roundtrip", ts, val, p[1])
		if i%3 == 1 {
			// … and the same value with every scalar leaf zeroed (same map keys, same lengths): zero fields are elided on the
			// wire, so whatever a failed decode of `val` left behind shows through
			h.DoRisky("proto.hist", ts, val, showVal(t, zeroLeaves(v), false))
		}
		if i%3 == 0 {
			// the same type, another value, after failed decodes of this one
			v2 := h.genVal(t, 0)
			if t.K == "ptr" && v2.IsNil() {
				v2.Set(reflect.New(t.Elem.Reflect()))
			}
			if !(hasMultiMap(t, v2) && nilPtrInCollection(v2)) {
				h.DoRisky("proto.hist", ts, val, showVal(t, v2, false))
			}
		}
		if op == "proto.marshal" {
			// determinism: a second Marshal of a map-free value gives the same bytes
			im2, _, _ := h.w.run(op, []string{ts, val})
			if im2 != im {
				h.Fail("proto.marshal", []string{ts, val}, "nondeterministic:"+im2, im)
			}
		}
		h.Count(fmt.Sprintf("wire_len_le_%d", bucket(len(wire))), 1)
	}
	// decoding into a recycled target (spare capacity holding old elements) = decoding into a fresh one
	h.protoRecycle()
	// messages with fields of defined (named) types
	h.protoNamedC03()
	// fields / elements / map values / top-level values of declared Message and custom types (protomsg.go)
	h.protoMsgC03()
	h.ptRetainCases("proto.retain") // call histories: results retained across further calls (ptretain.go)
}

func bucket(n int) int {
	for _, b := range []int{0, 8, 64, 512, 4096, 1 << 20} {
		if n <= b {
			return b
		}
	}
	return 1 << 30
}

// ---- C12: wire-format conformance ---------------------------------------------------------------

type wrec struct {
	num   uint64
	wt    int
	val   []byte // payload (varint bytes / fixed bytes / len payload)
	isMsg bool
}

// wireParse: an independent, minimal wire parser used ONLY to build legal re-encodings.
func wireParse(b []byte) ([]wrec, bool) {
	var out []wrec
	for len(b) > 0 {
		tag, n := uvarint(b)
		if n <= 0 {
			return nil, false
		}
		b = b[n:]
		r := wrec{num: tag >> 3, wt: int(tag & 7)}
		switch r.wt {
		case 0:
			_, n := uvarint(b)
			if n <= 0 {
				return nil, false
			}
			r.val = b[:n]
			b = b[n:]
		case 1:
			if len(b) < 8 {
				return nil, false
			}
			r.val = b[:8]
			b = b[8:]
		case 5:
			if len(b) < 4 {
				return nil, false
			}
			r.val = b[:4]
			b = b[4:]
		case 2:
			l, n := uvarint(b)
			if n <= 0 || uint64(len(b)-n) < l {
				return nil, false
			}
			r.val = b[n : n+int(l)]
			b = b[n+int(l):]
		default:
			return nil, false
		}
		out = append(out, r)
	}
	return out, true
}

func uvarint(b []byte) (uint64, int) {
	var x uint64
	for i := 0; i < len(b) && i < 10; i++ {
		x |= uint64(b[i]&0x7f) << (7 * uint(i))
		if b[i] < 0x80 {
			if i == 9 && b[i] > 1 {
				return 0, -1 // overflows 64 bits
			}
			return x, i + 1
		}
	}
	return 0, -1
}

func putUvarint(v uint64, pad int) []byte {
	var b []byte
	for v >= 0x80 {
		b = append(b, byte(v)|0x80)
		v >>= 7
	}
	b = append(b, byte(v))
	// non-minimal: extend with 0x80 … 0x00 continuation bytes, at most 10 bytes in total
	for pad > 0 && len(b) < 10 {
		b[len(b)-1] |= 0x80
		b = append(b, 0)
		pad--
	}
	return b
}

// specNumber / field lookup on the Go side (only to know which LEN fields are embedded messages).
func specNumber(f Field, pos int) int {
	if i := strings.Index(f.Tag, `protobuf:"`); i >= 0 {
		v := f.Tag[i+10:]
		if j := strings.IndexByte(v, '"'); j >= 0 {
			p := strings.Split(v[:j], ",")
			if len(p) >= 2 {
				if n, err := strconv.Atoi(p[1]); err == nil {
					return n
				}
			}
		}
	}
	return pos
}

func msgFieldType(t *Ty, num uint64) *Ty {
	st := baseOf(t)
	if st.K != "st" {
		return nil
	}
	for i, f := range st.Fields {
		if uint64(specNumber(f, i+1)) == num {
			return f.T
		}
	}
	return nil
}

// reencode produces a legal re-encoding: shuffled fields (keeping the relative order of equal numbers),
// non-minimal varints for tags/lengths/values, embedded messages re-encoded recursively and optionally split.
func (h *H) reencode(t *Ty, b []byte, depth int) ([]byte, bool) {
	recs, ok := wireParse(b)
	if !ok {
		return nil, false
	}
	// stable shuffle: repeatedly swap adjacent records with different numbers
	for k := 0; k < len(recs)*2; k++ {
		if len(recs) < 2 {
			break
		}
		i := h.Intn(len(recs) - 1)
		if recs[i].num != recs[i+1].num {
			recs[i], recs[i+1] = recs[i+1], recs[i]
		}
	}
	var out []byte
	for _, r := range recs {
		pad := 0
		if h.Intn(3) == 0 {
			pad = 1 + h.Intn(3)
		}
		ft := msgFieldType(t, r.num)
		emitRec := func(payload []byte) {
			out = append(out, putUvarint(r.num<<3|uint64(r.wt), pad)...)
			switch r.wt {
			case 0:
				v, _ := uvarint(payload)
				isBool := ft != nil && baseOfElem(ft).K == "bool"
				p2 := 0
				if h.Intn(3) == 0 && !isBool {
					p2 = 1 + h.Intn(4)
				}
				out = append(out, putUvarint(v, p2)...)
			case 2:
				p2 := 0
				if h.Intn(3) == 0 {
					p2 = 1 + h.Intn(2)
				}
				out = append(out, putUvarint(uint64(len(payload)), p2)...)
				out = append(out, payload...)
			default:
				out = append(out, payload...)
			}
		}
		if r.wt == 2 && ft != nil && depth < 4 {
			et := ft
			if ft.K == "sl" && !isByteSeq(ft) {
				et = ft.Elem
			}
			if baseOf(et).K == "st" {
				inner, ok := h.reencode(et, r.val, depth+1)
				if !ok {
					return nil, false
				}
				// split a non-repeated embedded message into two occurrences at a record boundary
				if ft.K != "sl" && ft.K != "map" && h.Intn(3) == 0 {
					if recs2, ok := wireParse(inner); ok && len(recs2) >= 2 {
						cut := 1 + h.Intn(len(recs2)-1)
						var a, c []byte
						for i, q := range recs2 {
							enc := encRec(q)
							if i < cut {
								a = append(a, enc...)
							} else {
								c = append(c, enc...)
							}
						}
						emitRec(a)
						emitRec(c)
						h.Count("reenc_split", 1)
						continue
					}
				}
				emitRec(inner)
				continue
			}
		}
		emitRec(r.val)
	}
	return out, true
}

func baseOfElem(t *Ty) *Ty {
	if t.K == "sl" && !isByteSeq(t) {
		return baseOf(t.Elem)
	}
	return baseOf(t)
}

func encRec(r wrec) []byte {
	out := putUvarint(r.num<<3|uint64(r.wt), 0)
	if r.wt == 2 {
		out = append(out, putUvarint(uint64(len(r.val)), 0)...)
	}
	return append(out, r.val...)
}

func hasMapOrDupScalar(t *Ty) bool { return false }

func runC12(h *H) {
	h.protoPrimitives()
	N := 1200
	if h.Thorough() {
		N = 20000
	}
	for i := 0; i < N; i++ {
		t, val := h.genProtoCase()
		ts := t.String()
		v := parseVal(t, val)
		b, err := proto.Marshal(v.Interface())
		if err != nil {
			h.Fail("proto.marshal", []string{ts, val}, "err", "ok")
			continue
		}
		want := "ok:" + showVal(t, v, true)
		// direction 1: the reference (Lean spec) decoder reads Marshal's bytes back to the same values
		h.Do("proto.decode", ts, hx(b), want)
		if !hasMultiMap(t, v) {
			h.Do("proto.marshal", ts, val)
		}
		// direction 2: legal re-encodings decode to the same values
		for k := 0; k < 3; k++ {
			if e, ok := h.reencode(t, b, 0); ok {
				h.Do("proto.decode", ts, hx(e), want)
				h.Count("reencodings", 1)
			}
		}
		// a later occurrence of a scalar field overrides an earlier one: prepend a decoy copy of a scalar record
		if recs, ok := wireParse(b); ok && len(recs) > 0 {
			r := recs[h.Intn(len(recs))]
			ft := msgFieldType(t, r.num)
			if ft != nil && ft.K != "sl" && ft.K != "map" && baseOf(ft).K != "st" && r.wt != 2 {
				decoy := r
				decoy.val = append([]byte{}, r.val...)
				decoy.val[0] ^= 0x01
				if decoy.wt == 0 && len(decoy.val) == 1 {
					e := append(encRec(decoy), b...)
					h.Do("proto.decode", ts, hx(e), want)
					h.Count("override_cases", 1)
				}
				if decoy.wt == 1 || decoy.wt == 5 { // fixed-width scalars: any other value first
					e := append(encRec(decoy), b...)
					h.Do("proto.decode", ts, hx(e), want)
					h.Count("override_cases", 1)
				}
			}
			// length-delimited scalars (string, bytes — not messages, repeated fields, maps or byte arrays, whose later
			// occurrences merge or append): an earlier occurrence that is LONGER, shorter or empty must leave no trace
			if ft != nil && r.wt == 2 && ft.K != "sl" && ft.K != "map" && ft.K != "arr" && (baseOf(ft).K == "str" || baseOf(ft).K == "bytes") {
				for _, dv := range [][]byte{append(append([]byte{}, r.val...), []byte("-longer-decoy")...), []byte("d"), {}} {
					decoy := r
					decoy.val = dv
					e := append(encRec(decoy), b...)
					h.Do("proto.decode", ts, hx(e), want)
					h.Count("override_cases", 1)
				}
			}
		}
	}
	// messages with fields of defined (named) types
	h.protoNamedC12()
	// declared Message and custom types (protomsg.go)
	h.protoMsgC12()
}

// ---- C16: MarshalTo for every buffer length -------------------------------------------------------

func opMarshalTo(a []string) (string, string, string) {
	t := parseTy(a[0])
	v := parseVal(t, a[1])
	n := atoi(a[2])
	x := v.Interface()
	size := proto.Size(x)
	want, merr := proto.Marshal(x)
	if merr != nil {
		return "marshal-err", "-", ""
	}
	const guard = 0xEE
	capn := n + 24
	buf := make([]byte, capn)
	for i := range buf {
		buf[i] = guard
	}
	got, err := proto.MarshalTo(buf[:n], x)
	guardOK := true
	for i := n; i < capn; i++ {
		if buf[i] != guard {
			guardOK = false
		}
	}
	multimap := hasMultiMap(t, v)
	var impl, oracle string
	if n >= size {
		oracle = fmt.Sprintf("ok:n=%d;bytes=same;guard=1", size)
		same := "same"
		if err == nil && got <= n && !multimap && !bytes.Equal(buf[:got], want) {
			same = "differ:" + hx(buf[:min(got, 64)])
		}
		if err == nil && multimap {
			// map order may differ: compare through a decode
			if got <= n && protoDecode(t, buf[:got]) != protoDecode(t, want) {
				same = "differ-decoded"
			}
		}
		if err != nil {
			impl = "err"
		} else {
			impl = fmt.Sprintf("ok:n=%d;bytes=%s;guard=%s", got, same, b01(guardOK))
		}
	} else {
		oracle = "shortbuffer;guard=1"
		switch {
		case err == nil:
			impl = fmt.Sprintf("ok:n=%d", got)
		case errors.Is(err, io.ErrShortBuffer):
			impl = "shortbuffer;guard=" + b01(guardOK)
		default:
			impl = "othererr;guard=" + b01(guardOK)
		}
	}
	k := ""
	if _, ok := x.(proto.RawMessage); ok {
		k = "protoMarshalToMessageCount"
	}
	return impl, oracle, k
}

func runC16(h *H) {
	N := 250
	if h.Thorough() {
		N = 4000
	}
	for i := 0; i < N; i++ {
		t, val := h.genProtoCase()
		ts := t.String()
		v := parseVal(t, val)
		size := proto.Size(v.Interface())
		h.Count(fmt.Sprintf("size_le_%d", bucket(size)), 1)
		maxn := size + 3
		step := 1
		if size > 400 && !h.Thorough() {
			step = 1 + size/200
		}
		for n := 0; n <= maxn; n += step {
			h.Do("proto.marshalto", ts, val, strconv.Itoa(n))
		}
		if step > 1 {
			for _, n := range []int{size - 2, size - 1, size, size + 1} {
				if n >= 0 {
					h.Do("proto.marshalto", ts, val, strconv.Itoa(n))
				}
			}
		}
	}
	// top-level RawMessage / Message implementers
	for _, raw := range []string{"-", "0801", "0a03616263", "08011001"} {
		for n := 0; n <= 8; n++ {
			h.Do("proto.marshalto", "named RawMessage bytes", "s "+raw, strconv.Itoa(n))
		}
	}
	// declared Message and custom types (protomsg.go)
	h.protoMsgC16()
}

// ---- C07: totality, unknown fields, Scan, allocation ----------------------------------------------

// opUnknownInsert: args ty, hex(valid encoding), position index, hex(unknown field record).
// inserts the record at the given top-level field boundary; decoded value must be unchanged.
func opUnknownInsert(a []string) (string, string, string) {
	t := parseTy(a[0])
	b := unhx(a[1])
	pos := atoi(a[2])
	rec := unhx(a[3])
	recs, ok := wireParse(b)
	if !ok {
		return "badcase", "-", ""
	}
	var out []byte
	for i, r := range recs {
		if i == pos {
			out = append(out, rec...)
		}
		out = append(out, encRecRaw(r)...)
	}
	if pos >= len(recs) {
		out = append(out, rec...)
	}
	k := ""
	if len(b) == 0 && t.K == "ptr" {
		k = "protoPtrToEmptyEncoding" // Unmarshal of empty input into *T gives nil, of any other input &T{…}
	}
	return protoDecode(t, out), protoDecode(t, b), k
}

// encRecRaw keeps the original payload bytes (varint payloads included) but canonical tag/len.
func encRecRaw(r wrec) []byte { return encRec(r) }

// opScan: Scan must enumerate exactly the top-level fields Unmarshal consumes, and agree on validity at top level.
func opScan(a []string) (string, string, string) {
	b := unhx(a[0])
	var sb strings.Builder
	err := proto.Scan(b, func(f proto.FieldNumber, t proto.WireType, v proto.RawValue) (bool, error) {
		fmt.Fprintf(&sb, "%d/%d/%s,", f, t, hx(v))
		return true, nil
	})
	impl := "ok:" + sb.String()
	if err != nil {
		impl = "err"
	}
	// oracle: the independent wire parser
	recs, ok := wireParse(b)
	oracle := "err"
	if ok {
		var ob strings.Builder
		for _, r := range recs {
			fmt.Fprintf(&ob, "%d/%d/%s,", r.num, r.wt, hx(r.val))
		}
		oracle = "ok:" + ob.String()
	}
	// also walk with Parse and check the remainder arithmetic
	rest := b
	for len(rest) > 0 {
		_, _, v, m, err := proto.Parse(rest)
		if err != nil {
			break
		}
		if len(m) >= len(rest) || len(v) > len(rest) {
			impl += ";parse-no-progress"
			break
		}
		rest = m
	}
	return impl, oracle, ""
}

// opAlloc: bytes allocated by Unmarshal of an arbitrary input stay within a constant factor of len(input).
func opAlloc(a []string) (string, string, string) {
	t := parseTy(a[0])
	b := unhx(a[1])
	tgt := reflect.New(t.Reflect())
	x := tgt.Interface()
	proto.Unmarshal(b, x) // warm the codec cache
	tgt = reflect.New(t.Reflect())
	x = tgt.Interface()
	var m0, m1 runtime.MemStats
	runtime.ReadMemStats(&m0)
	proto.Unmarshal(b, x)
	runtime.ReadMemStats(&m1)
	alloc := m1.TotalAlloc - m0.TotalAlloc
	// bound: K·len + K0 with K = 64·sizeof(target) (slice growth doubling, map entries, pointers), generous constant
	bound := uint64(len(b))*64*uint64(t.Reflect().Size()+64) + 1<<16
	if alloc <= bound {
		return "bounded", "bounded", ""
	}
	return fmt.Sprintf("alloc=%d>bound=%d", alloc, bound), "bounded", ""
}

func (h *H) mutate(b []byte) []byte {
	b = append([]byte{}, b...)
	if len(b) == 0 {
		return h.Bytes(1 + h.Intn(4))
	}
	switch h.Intn(7) {
	case 0:
		return b[:h.Intn(len(b))]
	case 1:
		b[h.Intn(len(b))] ^= 1 << uint(h.Intn(8))
	case 2:
		b[h.Intn(len(b))] = byte(h.U64())
	case 3:
		i := h.Intn(len(b) + 1)
		ins := h.Bytes(1 + h.Intn(3))
		b = append(b[:i], append(ins, b[i:]...)...)
	case 4:
		i := h.Intn(len(b))
		b[i] |= 0x80
	case 5:
		i := h.Intn(len(b))
		j := i + h.Intn(len(b)-i)
		b = append(b[:i], b[j:]...)
	case 6:
		i := h.Intn(len(b))
		b[i] = 0xff
		if i+1 < len(b) {
			b[i+1] = 0xff
		}
	}
	return b
}

func (h *H) genUnknownRecord(t *Ty, depth int) []byte {
	st := baseOf(t)
	declared := map[uint64]bool{}
	if st.K == "st" {
		for i, f := range st.Fields {
			declared[uint64(specNumber(f, i+1))&0xffff] = true
			declared[uint64(specNumber(f, i+1))] = true
		}
	}
	var num uint64
	for {
		switch h.Intn(6) {
		case 0:
			num = uint64(1 + h.Intn(1<<29-1))
		case 1:
			num = uint64([]int{15, 16, 2047, 2048, 65535, 65536, 65537, 1<<29 - 1}[h.Intn(8)])
		case 2: // an undeclared number whose low 16 bits are those of a declared field (field tables indexed by uint16)
			if st.K == "st" && len(st.Fields) > 0 {
				i := h.Intn(len(st.Fields))
				num = uint64(specNumber(st.Fields[i], i+1))&0xffff + 65536*uint64(1+h.Intn(8000))
				if num >= 1<<29 {
					num = uint64(specNumber(st.Fields[i], i+1))&0xffff + 65536
				}
			} else {
				num = 65537
			}
		default:
			num = uint64(1 + h.Intn(60))
		}
		if !declared[num] {
			break
		}
	}
	r := wrec{num: num}
	switch h.Intn(4) {
	case 0:
		r.wt = 0
		r.val = putUvarint(h.U64()>>uint(h.Intn(64)), h.Intn(2))
	case 1:
		r.wt = 1
		r.val = h.Bytes(8)
	case 2:
		r.wt = 5
		r.val = h.Bytes(4)
	default:
		r.wt = 2
		r.val = h.Bytes(h.Intn(20))
		if depth < 2 && h.Bool() {
			r.val = h.genUnknownRecord(&Ty{K: "st"}, depth+1)
		}
		if h.Intn(8) == 0 {
			r.val = h.Bytes(120 + h.Intn(20))
		}
	}
	return encRec(r)
}

func runC07(h *H) {
	h.protoPrimitives()
	h.genScanCases()
	for n := 0; n <= 9; n++ {
		for l := 0; l <= n+12; l++ {
			h.DoRisky("proto.bytearr", strconv.Itoa(n), strconv.Itoa(l))
		}
	}
	N := 500
	if h.Thorough() {
		N = 8000
	}
	for i := 0; i < N; i++ {
		t, val := h.genProtoCase()
		ts := t.String()
		v := parseVal(t, val)
		b, err := proto.Marshal(v.Interface())
		if err != nil {
			continue
		}
		// every prefix (truncation at every byte offset)
		offs := []int{}
		full := 300
		if h.Thorough() {
			full = 800
		}
		if len(b) <= full {
			for n := 0; n < len(b); n++ {
				offs = append(offs, n)
			}
		} else {
			for n := 0; n < 150; n++ {
				offs = append(offs, n)
			}
			for k := 0; k < 150; k++ {
				offs = append(offs, 150+h.Intn(len(b)-150))
			}
		}
		for _, n := range offs {
			h.DoRisky("proto.decodeany", ts, hx(b[:n]))
		}
		// mutations
		for k := 0; k < 6; k++ {
			m := h.mutate(b)
			h.DoRisky("proto.decodeany", ts, hx(m))
			if k < 2 {
				h.DoRisky("proto.alloc", ts, hx(m))
				h.Do("proto.scan", hx(m))
			}
		}
		h.Do("proto.scan", hx(b))
		// unknown fields inserted at every top-level boundary
		recs, ok := wireParse(b)
		if ok {
			for pos := 0; pos <= len(recs) && pos < 12; pos++ {
				h.Do("proto.unknown", ts, hx(b), strconv.Itoa(pos), hx(h.genUnknownRecord(t, 0)))
			}
		}
	}
	// arbitrary bytes into a few fixed shapes, including adversarial lengths
	shapes := []string{
		"st 3 f A - 0 i32 f B - 0 sl str f C - 0 map str i64",
		"st 2 f A - 0 ptr st 1 f X - 0 bytes f B - 0 sl ptr st 1 f Y - 0 u64",
		"st 2 f A - 0 arr 4 u8 f B - 0 named RawMessage bytes",
	}
	M := 600
	if h.Thorough() {
		M = 10000
	}
	for i := 0; i < M; i++ {
		ts := shapes[h.Intn(len(shapes))]
		var b []byte
		switch h.Intn(4) {
		case 0:
			b = h.Bytes(h.Intn(24))
		case 1: // huge declared length
			b = append([]byte{byte(h.Intn(4)<<3 | 2)}, putUvarint(h.U64()>>uint(h.Intn(40)), 0)...)
			b = append(b, h.Bytes(h.Intn(6))...)
		case 2: // long varints
			b = append([]byte{byte((1+h.Intn(3))<<3 | 0)}, bytes.Repeat([]byte{0xff}, 8+h.Intn(5))...)
			b = append(b, byte(h.Intn(4)))
		default:
			n := 1 + h.Intn(10)
			for j := 0; j < n; j++ {
				b = append(b, h.genUnknownRecord(&Ty{K: "st"}, 0)...)
			}
			b = h.mutate(b)
		}
		h.DoRisky("proto.decodeany", ts, hx(b))
		h.DoRisky("proto.alloc", ts, hx(b))
		h.Do("proto.scan", hx(b))
	}
	// nesting limit (recursive types, counting rule against the model)
	h.protoDeep()
	// allocation clause: measured allocation against the model's count and the proved bound (protoalloc.go)
	h.protoAllocCases()
	runC09HistErr(h, "C07") // c09histerr.go
}

// zeroLeaves copies v with every scalar leaf set to its zero value; containers keep their shape (map keys, lengths,
// non-nil pointers).
func zeroLeaves(v reflect.Value) reflect.Value {
	out := reflect.New(v.Type()).Elem()
	switch v.Kind() {
	case reflect.Struct:
		for i := 0; i < v.NumField(); i++ {
			if out.Field(i).CanSet() {
				out.Field(i).Set(zeroLeaves(v.Field(i)))
			}
		}
	case reflect.Map:
		if !v.IsNil() {
			out.Set(reflect.MakeMapWithSize(v.Type(), v.Len()))
			it := v.MapRange()
			for it.Next() {
				out.SetMapIndex(it.Key(), zeroLeaves(it.Value()))
			}
		}
	case reflect.Slice:
		if !v.IsNil() {
			out.Set(reflect.MakeSlice(v.Type(), v.Len(), v.Len()))
			if v.Type().Elem().Kind() != reflect.Uint8 {
				for i := 0; i < v.Len(); i++ {
					out.Index(i).Set(zeroLeaves(v.Index(i)))
				}
			}
		}
	case reflect.Array:
		if v.Type().Elem().Kind() != reflect.Uint8 {
			for i := 0; i < v.Len(); i++ {
				out.Index(i).Set(zeroLeaves(v.Index(i)))
			}
		}
	case reflect.Ptr:
		if !v.IsNil() {
			p := reflect.New(v.Type().Elem())
			p.Elem().Set(zeroLeaves(v.Elem()))
			out.Set(p)
		}
	}
	return out
}

// poisonAt appends a truncated field (number 127, varint, no terminating byte) to the payload of a length-delimited field
// `depth` levels down — following the last (at = 0) or the first (at = 1) length-delimited record of each level — and
// re-frames the enclosing lengths.
func poisonAt(b []byte, depth, at int) ([]byte, bool) {
	recs, ok := wireParse(b)
	if !ok {
		return nil, false
	}
	idx := -1
	for i, r := range recs {
		if r.wt == 2 {
			idx = i
			if at == 1 {
				break
			}
		}
	}
	if idx < 0 {
		return nil, false
	}
	var payload []byte
	if depth <= 1 {
		payload = append(append([]byte{}, recs[idx].val...), 0xf8, 0x07, 0x80)
	} else {
		p, ok := poisonAt(recs[idx].val, depth-1, at)
		if !ok {
			return nil, false
		}
		payload = p
	}
	var out []byte
	for i, r := range recs {
		if i == idx {
			r = wrec{num: r.num, wt: 2, val: payload}
		}
		out = append(out, encRec(r)...)
	}
	return out, true
}
