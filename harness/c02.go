package main

import (
	"bytes"
	stdjson "encoding/json"
	"fmt"
	"math"
	"os"
	"reflect"
	"strconv"
	"strings"

	"github.com/segmentio/encoding/json"
)

func init() {
	registry["C02"] = runC02
	ops["json.unmarshal"] = opUnmarshal
	ops["json.nullptrptr"] = func(a []string) (string, string, string) {
		mk := func() any { x := 1; p := &x; return &struct{ O **int }{&p} }
		t1, t2 := mk(), mk()
		e1, e2 := json.Unmarshal([]byte(`{"O":null}`), t1), stdjson.Unmarshal([]byte(`{"O":null}`), t2)
		return fmt.Sprint(e1 == nil, t1.(*struct{ O **int }).O == nil), fmt.Sprint(e2 == nil, t2.(*struct{ O **int }).O == nil), "jsonNullNestedPointer"
	}
	ops["json.decint"] = func(a []string) (string, string, string) { return decNum("int", a) }
	ops["json.decnum"] = func(a []string) (string, string, string) { return decNum("other", a) }
	ops["json.decstr"] = func(a []string) (string, string, string) {
		doc := unhx(a[0])
		var s1, s2 string
		e1 := json.Unmarshal(doc, &s1)
		e2 := stdjson.Unmarshal(doc, &s2)
		i, o := "err", "err"
		if e1 == nil {
			i = "ok:" + hx([]byte(s1))
		}
		if e2 == nil {
			o = "ok:" + hx([]byte(s2))
		}
		return i, o, ""
	}
}

// decNum: a literal into every integer width ("int": these ten are also answered by the Lean model and specification)
// or into float32, float64, any and Number ("other"): accept/reject and value like encoding/json
func decNum(which string, a []string) (string, string, string) {
	doc := unhx(a[0])
	var sb, ob strings.Builder
	targets := []func() any{
		func() any { return new(int8) }, func() any { return new(int16) }, func() any { return new(int32) }, func() any { return new(int64) },
		func() any { return new(int) }, func() any { return new(uint8) }, func() any { return new(uint16) }, func() any { return new(uint32) },
		func() any { return new(uint64) }, func() any { return new(uint) }, func() any { return new(float32) }, func() any { return new(float64) },
		func() any { return new(any) }, func() any { return new(json.Number) },
	}
	if which == "int" {
		targets = targets[:10]
	} else {
		targets = targets[10:]
	}
	for _, mk := range targets {
		t1, t2 := mk(), mk()
		e1 := json.Unmarshal(doc, t1)
		e2 := stdjson.Unmarshal(doc, t2)
		fmt.Fprintf(&sb, "%s,", resStr(e1, t1))
		fmt.Fprintf(&ob, "%s,", resStr(e2, t2))
	}
	return sb.String(), ob.String(), ""
}

func resStr(err error, t any) string {
	if err != nil {
		return "E"
	}
	return fmt.Sprint(reflect.ValueOf(t).Elem().Interface())
}

func deepCopy(v reflect.Value) reflect.Value {
	out := reflect.New(v.Type()).Elem()
	switch v.Kind() {
	case reflect.Ptr:
		if !v.IsNil() {
			p := reflect.New(v.Type().Elem())
			p.Elem().Set(deepCopy(v.Elem()))
			out.Set(p)
		}
	case reflect.Interface:
		if !v.IsNil() {
			out.Set(deepCopy(v.Elem()))
		}
	case reflect.Slice:
		if !v.IsNil() {
			s := reflect.MakeSlice(v.Type(), v.Len(), v.Cap())
			for i := 0; i < v.Len(); i++ {
				s.Index(i).Set(deepCopy(v.Index(i)))
			}
			out.Set(s)
		}
	case reflect.Array:
		for i := 0; i < v.Len(); i++ {
			out.Index(i).Set(deepCopy(v.Index(i)))
		}
	case reflect.Map:
		if !v.IsNil() {
			m := reflect.MakeMapWithSize(v.Type(), v.Len())
			it := v.MapRange()
			for it.Next() {
				m.SetMapIndex(deepCopy(it.Key()), deepCopy(it.Value()))
			}
			out.Set(m)
		}
	case reflect.Struct:
		for i := 0; i < v.NumField(); i++ {
			if out.Field(i).CanSet() {
				out.Field(i).Set(deepCopy(v.Field(i)))
			}
		}
		if v.Type().NumField() > 0 && !out.Field(0).CanSet() {
			out.Set(v) // structs with unexported fields (time.Time): plain copy
		}
	default:
		out.Set(v)
	}
	return out
}

// mutateDoc: structure-aware edits of a valid document
func (h *H) mutateDoc(d []byte) []byte {
	s := string(d)
	switch h.Intn(14) {
	case 0: // edit a key: the ways an object key can (or must not) match a field name
		// pick one of the keys of the document (not always the first)
		var keys [][2]int
		for i := 0; i+1 < len(s); i++ {
			if s[i] == '"' && s[i+1] == ':' {
				if j := strings.LastIndex(s[:i], `"`); j >= 0 && !strings.ContainsAny(s[j+1:i], `\`) {
					keys = append(keys, [2]int{j + 1, i})
				}
			}
		}
		if len(keys) > 0 {
			kr := keys[h.Intn(len(keys))]
			j, i := kr[0], kr[1]
			k := s[j:i]
			switch h.Intn(12) {
			case 0:
				k = strings.ToUpper(k)
			case 1:
				k = strings.ToLower(k)
			case 2: // trailing NUL bytes (16-byte zero-padded key sets), escaped
				k += strings.Repeat(`\u0000`, 1+h.Intn(3))
			case 3: // the same key written with an escape for its first character
				if len(k) > 0 && k[0] < 0x80 {
					k = fmt.Sprintf(`\u%04x`, k[0]) + k[1:]
				}
			case 4: // a proper prefix / an extension of the key
				if len(k) > 1 && h.Bool() {
					k = k[:len(k)-1]
				} else {
					k += h.Pick([]string{"x", " ", "0", "_"})
				}
			case 5: // Unicode characters that case-fold into ASCII letters (U+017F, U+212A)
				k = strings.NewReplacer("s", "\u017f", "S", "\u017f", "k", "\u212a", "K", "\u212a").Replace(k)
			case 6: // leading / inner space
				k = " " + k
			case 7: // pad beyond 16 bytes, then the key again
				k = k + strings.Repeat("a", 16)
			case 8: // mixed case, one letter
				if len(k) > 0 {
					p := h.Intn(len(k))
					k = k[:p] + strings.ToUpper(k[p:p+1]) + k[p+1:]
				}
			case 9: // raw NUL / control byte inside the key (invalid JSON)
				k += "\x00"
			case 10: // empty key
				k = ""
			default: // swap two characters
				if len(k) > 1 {
					k = k[1:2] + k[0:1] + k[2:]
				}
			}
			s = s[:j] + k + s[i:]
		}
	case 1: // replace some scalar by another JSON value
		repl := h.Pick([]string{"null", "true", "12", "-1", "1.5", `"x"`, `"12"`, "{}", "[]", `[1,"a"]`, `{"X":1}`, "1e2", "300", "-129", "65536", "4294967296", "1e400", `"tv:z"`})
		for _, old := range []string{"null", "true", "false", "0", `""`, "[]", "{}"} {
			if i := strings.Index(s, old); i >= 0 && h.Bool() {
				s = s[:i] + repl + s[i+len(old):]
				break
			}
		}
	case 11, 12, 13: // replace the value at a RANDOM position (after ':' '[' or ',') by null or another token: a null that follows
		// earlier non-null members or elements must still reset / leave the target as encoding/json does
		var pos []int
		inStr := false
		for i := 0; i+1 < len(s); i++ {
			c := s[i]
			if c == '\\' && inStr {
				i++
				continue
			}
			if c == '"' {
				inStr = !inStr
			}
			if !inStr && (c == ':' || c == '[' || c == ',') && s[i+1] != ']' && s[i+1] != '}' {
				pos = append(pos, i+1)
			}
		}
		if len(pos) > 0 {
			st := pos[h.Intn(len(pos))]
			// end of the value token starting at st (scalars and strings only; containers are left alone)
			en := st
			if s[st] == '"' {
				for en = st + 1; en < len(s) && s[en] != '"'; en++ {
					if s[en] == '\\' {
						en++
					}
				}
				en++
			} else if s[st] != '{' && s[st] != '[' {
				for en < len(s) && !strings.ContainsRune(",]}", rune(s[en])) {
					en++
				}
			}
			if en > st && en <= len(s) {
				// only if what follows the string is not ':' (then it was a key)
				if !(en < len(s) && s[en] == ':') {
					s = s[:st] + h.Pick([]string{"null", "null", "null", "0", `""`, "false", "[]", "{}", "1"}) + s[en:]
				}
			}
		}
	case 2: // duplicate a member with a different value
		if i := strings.Index(s, `{"`); i >= 0 {
			if j := strings.Index(s[i:], `":`); j > 0 {
				key := s[i+1 : i+j+1]
				s = s[:i+1] + key + ":" + h.Pick([]string{"null", "1", `"d"`, "[]", "{}"}) + "," + s[i+1:]
			}
		}
	case 3: // unknown member
		if i := strings.Index(s, "{"); i >= 0 && i+1 < len(s) {
			s = s[:i+1] + `"zzUnknown":` + h.Pick([]string{"1", `{"a":[1,2,{"b":null}]}`, `"s"`, "[[]]"}) + iff(s[i+1] == '}', "", ",") + s[i+1:]
		}
	case 4:
		return h.mutateJSON(d)
	case 5: // white space
		s = strings.ReplaceAll(s, ",", " ,\n ")
	case 6: // wrap / unwrap
		s = "[" + s + "]"
	case 7:
		s = `{"A":` + s + `,"X":` + s + `}`
	case 8:
		s = "null"
	case 9: // surplus / missing array elements
		s = strings.Replace(s, "[", "[1,", 1)
	case 10:
		s = strings.Replace(s, ",", "", 1)
	}
	return []byte(s)
}

func iff(c bool, a, b string) string {
	if c {
		return a
	}
	return b
}

// "decpad:<k>": through a Decoder, with white space in front so that byte k of the document is the first byte of the
// second 32 KiB buffer fill (state computed on one fill must not leak into, or be forgotten by, the next)
var unmarshalSettings = []string{"unmarshal", "parse", "dec:0:0", "dec:1:0", "dec:0:1", "dec:1:1", "decpad"}

func decodeWith(setting string, doc []byte, t1, t2 any) (error, error) {
	switch setting {
	case "unmarshal":
		return json.Unmarshal(doc, t1), stdjson.Unmarshal(doc, t2)
	case "parse":
		rest, e1 := json.Parse(doc, t1, 0)
		if e1 == nil && len(rest) != 0 {
			e1 = fmt.Errorf("trailing data")
		}
		return e1, stdjson.Unmarshal(doc, t2)
	}
	p := strings.Split(setting, ":")
	if p[0] == "decpad" {
		k := 0
		if len(doc) > 0 {
			k = int(uint(len(doc))*2654435761%uint(len(doc)+1)) % (len(doc) + 1)
		}
		pad := 32768 - k
		doc = append(bytes.Repeat([]byte{' '}, pad), doc...)
		p = []string{"dec", "0", "0"}
	}
	d1 := json.NewDecoder(bytes.NewReader(doc))
	d2 := stdjson.NewDecoder(bytes.NewReader(doc))
	if p[1] == "1" {
		d1.UseNumber()
		d2.UseNumber()
	}
	if p[2] == "1" {
		d1.DisallowUnknownFields()
		d2.DisallowUnknownFields()
	}
	e1, e2 := d1.Decode(t1), d2.Decode(t2)
	// a Decoder accepts a document followed by more values: only the first Decode is compared
	return e1, e2
}

func opUnmarshal(a []string) (string, string, string) {
	sub, _ := strconv.ParseUint(a[0], 10, 64)
	hh := &H{rng: sub, Stats: map[string]int64{}}
	g := &jgen{h: hh, feats: map[string]bool{}, decode: true}
	t := g.ty(0)
	if hh.Intn(3) != 0 && t.Kind() != reflect.Struct {
		t = g.structTy(0)
	}
	// document: a value of the type marshalled by encoding/json, possibly mutated; or an arbitrary document
	var doc []byte
	switch hh.Intn(5) {
	case 0:
		doc = hh.genJSON(0)
	default:
		src := g.val(t, 0)
		d, err := stdjson.Marshal(src.Interface())
		if err != nil {
			d = hh.genJSON(0)
		}
		doc = d
		if len(a) > 2 {
			// null sweep: the k-th value position of the document is replaced by null (every position is visited by the runner)
			doc = nullAt(doc, atoi(a[2]))
		} else {
			for k := hh.Intn(3); k > 0; k-- {
				doc = hh.mutateDoc(doc)
			}
		}
	}
	// target: fresh or pre-populated (history of earlier decodes)
	prior := reflect.New(t).Elem()
	if hh.Intn(3) == 0 {
		prior = g.val(t, 0)
		g.feat("prior")
	}
	t1, t2 := reflect.New(t), reflect.New(t)
	t1.Elem().Set(deepCopy(prior))
	t2.Elem().Set(deepCopy(prior))
	if os.Getenv("VH_TRACE") != "" {
		fmt.Fprintf(os.Stderr, "TYPE %s\nDOC %s\nPRIOR %#v\nFEATS %v\n", t, doc, prior.Interface(), g.feats)
	}
	e1, e2 := decodeWith(a[1], doc, t1.Interface(), t2.Interface())
	i, o := "err", "err"
	if e1 == nil {
		i = "ok"
	}
	if e2 == nil {
		o = "ok"
	}
	if e1 == nil && e2 == nil {
		m1, _ := stdjson.Marshal(t1.Interface())
		m2, _ := stdjson.Marshal(t2.Interface())
		i, o = "ok:"+string(m1), "ok:"+string(m2)
		if !eqVal(t1.Elem(), t2.Elem()) && string(m1) == string(m2) {
			i += ";!deepequal"
		}
		i = strings.ReplaceAll(i, "\t", " ")
		o = strings.ReplaceAll(o, "\t", " ")
	}
	var ks []string
	if g.feats["collide"] || g.feats["shadow"] {
		ks = append(ks, "jsonFieldNameCollision")
	}
	if g.feats["ptrptr"] && bytes.Contains(doc, []byte("null")) {
		// `null` onto an already allocated pointer-to-pointer: the repo's own test suite pins "clears the inner pointer only"
		ks = append(ks, "jsonNullNestedPointer")
	}
	return i, o, strings.Join(ks, ",")
}

// eqVal is reflect.DeepEqual except that floats are compared by their bits (NaN equals NaN, 0 differs from -0) and
// pointer identity plays no role.
func eqVal(a, b reflect.Value) bool {
	if a.Type() != b.Type() {
		return false
	}
	switch a.Kind() {
	case reflect.Float32, reflect.Float64:
		return math.Float64bits(a.Float()) == math.Float64bits(b.Float())
	case reflect.Complex64, reflect.Complex128:
		return a.Complex() == b.Complex() || (a.Complex() != a.Complex() && b.Complex() != b.Complex())
	case reflect.Ptr, reflect.Interface:
		if a.IsNil() || b.IsNil() {
			return a.IsNil() == b.IsNil()
		}
		return eqVal(a.Elem(), b.Elem())
	case reflect.Slice:
		if a.IsNil() != b.IsNil() || a.Len() != b.Len() {
			return false
		}
		fallthrough
	case reflect.Array:
		for i := 0; i < a.Len(); i++ {
			if !eqVal(a.Index(i), b.Index(i)) {
				return false
			}
		}
		return true
	case reflect.Map:
		if a.IsNil() != b.IsNil() || a.Len() != b.Len() {
			return false
		}
		it := a.MapRange()
		for it.Next() {
			bv := b.MapIndex(it.Key())
			if !bv.IsValid() || !eqVal(it.Value(), bv) {
				return false
			}
		}
		return true
	case reflect.Struct:
		if a.NumField() > 0 && !a.Field(0).CanInterface() {
			return reflect.DeepEqual(a.Interface(), b.Interface())
		}
		for i := 0; i < a.NumField(); i++ {
			if !eqVal(a.Field(i), b.Field(i)) {
				return false
			}
		}
		return true
	}
	if a.CanInterface() {
		return reflect.DeepEqual(a.Interface(), b.Interface())
	}
	return true
}

func depthOf(d []byte) int {
	mx, cur := 0, 0
	for _, c := range d {
		if c == '[' || c == '{' {
			cur++
			if cur > mx {
				mx = cur
			}
		} else if c == ']' || c == '}' {
			cur--
		}
	}
	return mx
}

func runC02(h *H) {
	// scalar layer: integer literals at every width boundary ±1, leading zeros, floats into ints, beyond 64 bits
	lits := []string{"0", "-0", "1", "-1", "127", "128", "-128", "-129", "255", "256", "32767", "32768", "-32768", "-32769", "65535", "65536",
		"2147483647", "2147483648", "-2147483648", "-2147483649", "4294967295", "4294967296", "9223372036854775807", "9223372036854775808",
		"-9223372036854775808", "-9223372036854775809", "18446744073709551615", "18446744073709551616", "99999999999999999999", "01", "-01", "00",
		"1.0", "1e2", "1E2", "1.5", "-1.5e3", "1e", "1.", ".5", "+1", "--1", "0x10", "1e400", "-1e400", "1e-400", "123456789012345678901234567890",
		`"12"`, `"-1"`, `""`, "null", "true", " 12 ", "12 13", "1_000", "25000000000000000000", "30000000000000000000", "-25000000000000000000",
		"-0.0", "-", "- 1", "null ", "nullx", "nul", "0e0", "0.", "9223372036854775807.0", "18446744073709551615e0"}
	for _, l := range lits {
		h.Do("json.decint", hx([]byte(l)))
		h.Do("json.decnum", hx([]byte(l)))
	}
	for i := 0; i < 300; i++ {
		h.Do("json.decint", hx([]byte(strconv.FormatUint(h.U64()>>uint(h.Intn(64)), 10))))
		h.Do("json.decint", hx([]byte("-"+strconv.FormatUint(h.U64()>>uint(h.Intn(64)), 10))))
	}
	// 18..22 digit literals: where value*10+x wraps around 2^63 / 2^64 (the former overflow test missed some)
	for i := 0; i < 400; i++ {
		n := 18 + h.Intn(5)
		d := make([]byte, n)
		for j := range d {
			d[j] = byte('0' + h.Intn(10))
		}
		if d[0] == '0' {
			d[0] = '1' + byte(h.Intn(9))
		}
		h.Do("json.decint", hx(d))
		h.Do("json.decint", hx(append([]byte("-"), d...)))
	}
	// strings: escapes, surrogate pairs, lone surrogates, invalid UTF-8
	strs := []string{`""`, `"a"`, `"\n\t\"\\\/\b\f\r"`, `"A"`, `"é"`, `"😀"`, `"\ud83d"`, `"\ude00"`, `"\ud83dx"`, `"\ud83dA"`,
		`"\ud83d😀"`, `"\u00"`, `"\u00zz"`, `"\x"`, "\"\xff\"", "\"a\xc3\"", "\"\xed\xa0\x80\"", "\"\x1f\"", "\"tab\there\"", `"\u0000"`, `"￿"`,
		`"long string without escapes 0123456789"`, `"esc at 8\n....."`, "\"\xf0\x9f\x98\x80\"", `" "`}
	for _, s := range strs {
		h.Do("json.decstr", hx([]byte(s)))
	}
	for i := 0; i < 400; i++ {
		b := h.genJSONString()
		if h.Intn(3) == 0 {
			b = h.mutateJSON(b)
		}
		h.Do("json.decstr", hx(b))
	}
	N := 3000
	if h.Thorough() {
		N = 70000
	}
	for i := 0; i < N; i++ {
		h.DoRisky("json.unmarshal", strconv.FormatUint(h.U64(), 10), unmarshalSettings[h.Intn(len(unmarshalSettings))])
	}
	// null sweep over value positions: `null` after earlier non-null members / elements, in every container kind
	for i := 0; i < N/3; i++ {
		sub := strconv.FormatUint(h.U64(), 10)
		set := unmarshalSettings[h.Intn(len(unmarshalSettings))]
		for k := 0; k < 4; k++ {
			h.DoRisky("json.unmarshal", sub, set, strconv.Itoa(k+h.Intn(3)*4))
		}
	}
	runC02Any(h)            // c02any.go: whole documents into `var x any`
	runC02Typed(h)          // c02typed.go: typed targets with prior content
	genCodecChoiceDec(h)    // c01codecdec.go: which decoder a type gets (Unmarshaler detection, null handling)
	runC09HistErr(h, "C02") // c09histerr.go
}

// nullAt replaces the k-th (mod count) scalar or string VALUE of the document (not a key) by null.
func nullAt(d []byte, k int) []byte {
	s := string(d)
	type span struct{ st, en int }
	var pos []span
	inStr := false
	for i := 0; i+1 < len(s); i++ {
		c := s[i]
		if inStr {
			if c == '\\' {
				i++
			} else if c == '"' {
				inStr = false
			}
			continue
		}
		if c == '"' {
			inStr = true
			continue
		}
		if (c == ':' || c == '[' || c == ',') && s[i+1] != ']' && s[i+1] != '}' && s[i+1] != '{' && s[i+1] != '[' {
			st := i + 1
			en := st
			if s[st] == '"' {
				for en = st + 1; en < len(s) && s[en] != '"'; en++ {
					if s[en] == '\\' {
						en++
					}
				}
				en++
				if en < len(s) && s[en] == ':' {
					continue // a key
				}
			} else {
				for en < len(s) && !strings.ContainsRune(",]}", rune(s[en])) {
					en++
				}
			}
			if en <= len(s) {
				pos = append(pos, span{st, en})
			}
		}
	}
	if len(pos) == 0 {
		return d
	}
	p := pos[k%len(pos)]
	return []byte(s[:p.st] + "null" + s[p.en:])
}
