package main

import (
	"bytes"
	"encoding/binary"
	"encoding/hex"
	stdjson "encoding/json"
	"errors"
	"fmt"
	"io"
	"math"
	"os"
	"reflect"
	"runtime"
	"sort"
	"strconv"
	"strings"
	"sync"
	"syscall"
	"time"

	"github.com/segmentio/encoding/json"
	"github.com/segmentio/encoding/proto"
	"github.com/segmentio/encoding/thrift"
)

// C09 — history independence, histories with FAILING calls (sibling of conc.hist, c09hist.go).
//
// conc.hist only makes calls that succeed on well-formed inputs; state that a call leaves behind when it fails (a pooled
// scratch value that is not reset on the error path, a "seen" bitset that is cleared only by a successful decode, a buffer
// of a reused Encoder) shows only when (a) an earlier call FAILED and (b) a later call has an input that does not
// overwrite everything (absent map key / value, absent struct field, absent required field). The universe below adds, for
// json, proto and thrift and for the same generic type families as conc.hist (plus a few types with required fields, map
// fields and failing marshalers):
//
//	(1) decode calls on DAMAGED inputs derived from the valid encoding of the member's value: the encoding is parsed into
//	    a tree (proto: wire-level, thrift: through the protocol Reader, json: tokens) and, in every message / struct /
//	    object of the tree, a field gets another wire type / JSON kind, a broken field is appended (wrong wire type,
//	    over-long varint, length beyond the end, invalid wire type), an element count is off by one, the last field is cut
//	    inside its value (a required field followed by a truncated later field), and the whole text is truncated at field
//	    boundaries and inside values; thrift in strict and non-strict mode;
//	(2) decode calls on inputs that OMIT things: every field of every message / struct / object removed in turn (map
//	    entries with only a key, only a value, a nested message with fewer fields, structs without a required field),
//	    everything removed, unknown fields added;
//	(3) encode calls that FAIL (json: invalid RawMessage, failing MarshalJSON / MarshalText, MarshalJSON returning invalid
//	    text, NaN; proto: failing MarshalTo of a custom type, short buffer; thrift: union with two members, failing
//	    writer) next to the ones that succeed;
//	(4) calls on REUSED objects: thrift Encoder / Decoder with Reset (both protocols and strict / non-strict on the same
//	    object), json Encoder, a json Decoder reading a stream of documents, proto.MarshalTo into a reused buffer.
//
//	conc.histerr <pkg> <scale> <seed> <G> <mode> <order> <pct>
//	    a fresh child process executes, on G goroutines (mode seq / free / step as conc.hist), a random history of the
//	    calls of the universe <pkg>/<scale>; order "perm": a random permutation of pct% of the calls plus repeats; order
//	    "grp": the calls on one Go type are dealt next to each other (random order of the types, random order inside).
//	    Every outcome — the value rendered structurally or the error CLASS (Go types of the error chain, never its text),
//	    plus what was stored before the error — must equal the outcome of the same call made as the very first library
//	    call of a fresh process (`vh exec conc.histerralone <call>`; a call is self-contained: pkg/member/op@input-hex);
//	    json calls are also compared with encoding/json (same value when both succeed, both fail otherwise).
//	    impl = "ok:<calls>" or the first calls whose outcome depends on the history (with their input); oracle = "ok:<calls>".

// ---- types added to the zoo ---------------------------------------------------------------------------------------------

var errHeRefused = errors.New("refused")

// json: marshalers that fail for some values, or return a text that is not JSON
type HeFailJ struct {
	N    int
	Fail bool
}

func (f HeFailJ) MarshalJSON() ([]byte, error) {
	if f.Fail {
		return nil, errHeRefused
	}
	return []byte(`{"n":` + strconv.Itoa(f.N) + `}`), nil
}

type HeFailPT struct{ N int }

func (f *HeFailPT) MarshalText() ([]byte, error) {
	if f == nil || f.N == 2 {
		return nil, errHeRefused
	}
	return []byte("t" + strconv.Itoa(f.N)), nil
}

type HeBadOut struct{ N int }

func (f HeBadOut) MarshalJSON() ([]byte, error) {
	if f.N == 2 {
		return []byte(`{"n":[1,}`), nil
	}
	return []byte(`{"n": [ ` + strconv.Itoa(f.N) + ` ] }`), nil
}

type HeFailKey struct{ K int }

func (k HeFailKey) MarshalText() ([]byte, error) {
	if k.K == 2 {
		return nil, errHeRefused
	}
	return []byte("k" + strconv.Itoa(k.K)), nil
}

type HeWide struct {
	A int               `json:"a"`
	B string            `json:"b"`
	C []int             `json:"c"`
	D map[string]HeWide `json:"d,omitempty"`
	E *HeWide           `json:"e,omitempty"`
	F float64           `json:"f"`
	G [2]bool           `json:"g"`
	H any               `json:"h"`
}

// proto: maps with message / pointer / bytes values, a custom type whose methods fail
type HeInner struct {
	A int64  `protobuf:"varint,1,opt"`
	B int64  `protobuf:"varint,2,opt"`
	S string `protobuf:"bytes,3,opt"`
}
type HeMaps struct {
	MS map[string]HeInner  `protobuf:"bytes,1,rep"`
	MI map[int32]string    `protobuf:"bytes,2,rep"`
	MP map[string]*HeInner `protobuf:"bytes,3,rep"`
	MB map[uint64][]byte   `protobuf:"bytes,4,rep"`
	X  int32               `protobuf:"varint,5,opt"`
	In *HeInner            `protobuf:"bytes,6,opt"`
}
type HeCusF struct {
	V    uint8
	Fail bool
}

func (c HeCusF) Size() int { return 1 }
func (c HeCusF) MarshalTo(b []byte) (int, error) {
	if c.Fail {
		return 0, errHeRefused
	}
	b[0] = c.V
	return 1, nil
}
func (c *HeCusF) Unmarshal(b []byte) error {
	if len(b) != 1 || b[0] == 0xee {
		return errHeRefused
	}
	c.V = b[0]
	return nil
}

// thrift: required fields at several depths
type HeReqIn struct {
	K string `thrift:"1,required"`
	V int64  `thrift:"2"`
}
type HeReq struct {
	ID   int32              `thrift:"1,required"`
	Name string             `thrift:"2"`
	Tags []string           `thrift:"3,required"`
	In   HeReqIn            `thrift:"4"`
	PIn  *HeReqIn           `thrift:"5,optional"`
	L    []HeReqIn          `thrift:"6"`
	M    map[string]HeReqIn `thrift:"7"`
	Last bool               `thrift:"8,required"`
}

// ---- the members ----------------------------------------------------------------------------------------------------------

var heZooMemo sync.Map

func heZoo(pkg string) []hMember {
	if z, ok := heZooMemo.Load(pkg); ok {
		return z.([]hMember)
	}
	var ms []hMember
	add := func(m []hMember) { ms = append(ms, m...) }
	itoa := strconv.Itoa
	switch pkg {
	case "json":
		add(hjZoo())
		obj := func(k string) func(int) string { return func(i int) string { return `{"` + k + `":` + itoa(i) + `}` } }
		add(hFamily("FailJ", func(i int) HeFailJ { return HeFailJ{i, i == 2} }, obj("N")))
		add(hFamily("FailPT", func(i int) HeFailPT { return HeFailPT{i} }, obj("N")))
		add(hFamily("BadOut", func(i int) HeBadOut { return HeBadOut{i} }, obj("N")))
		add(hFamily("RawBad", func(i int) stdjson.RawMessage {
			if i == 2 {
				return stdjson.RawMessage(`{"r":`)
			}
			return stdjson.RawMessage(`{"r": 1}`)
		}, func(i int) string { return `{"raw":[` + itoa(i) + `,"x"]}` }))
		add(hFamily("NaN", func(i int) float64 {
			if i == 2 {
				return math.NaN()
			}
			return 1.5
		}, func(i int) string { return itoa(i) + `.5` }))
		add(hFamily("Wide", func(i int) HeWide {
			return HeWide{i, "b", []int{1, i}, map[string]HeWide{"k": {A: 2, H: "x"}}, &HeWide{A: 3, C: []int{}}, 0.5, [2]bool{true, false}, []any{1.0, "s"}}
		}, func(i int) string {
			return `{"a":` + itoa(i) + `,"b":"s","c":[1,2],"d":{"k":{"a":2,"b":"kb","c":[3]}},"e":{"a":4,"f":1.5},"f":2.5,"g":[true,false],"h":{"x":[1]}}`
		}))
		add(hKeyFamily("FailKey", func(i int) HeFailKey { return HeFailKey{i} }, func(i int) string { return `"k` + itoa(i) + `"` }))
	case "proto":
		add(hpZoo())
		add(hqFamily("Maps", func(i int) HeMaps {
			return HeMaps{map[string]HeInner{"y": {7, 9, "s"}}, map[int32]string{int32(i): "v"}, map[string]*HeInner{"p": {A: int64(i), B: 2}},
				map[uint64][]byte{3: {1, 2}}, int32(i), &HeInner{1, 2, "in"}}
		}, false))
		add(hqFamily("Inner", func(i int) HeInner { return HeInner{int64(i), 9, "s"} }, false))
		add(hqFamily("CusF", func(i int) HeCusF { return HeCusF{uint8(i), i == 2} }, false))
	case "thrift":
		add(htZoo())
		add(hqFamily("Req", func(i int) HeReq {
			return HeReq{int32(i), "n", []string{"t"}, HeReqIn{"k", int64(i)}, &HeReqIn{K: "p"}, []HeReqIn{{"l", 1}}, map[string]HeReqIn{"m": {"mk", 2}}, true}
		}, true))
		add(hqFamily("ReqIn", func(i int) HeReqIn { return HeReqIn{"k" + itoa(i), int64(i)} }, true))
		add(hqFamily("UnionBad", func(i int) HtUnion {
			if i == 2 {
				return HtUnion{A: true, B: 2}
			}
			s := "s"
			return HtUnion{C: s, F: &s}
		}, false))
	}
	heZooMemo.Store(pkg, ms)
	return ms
}

var heIndexMemo sync.Map

func heMember(pkg, name string) (hMember, bool) {
	ix, ok := heIndexMemo.Load(pkg)
	if !ok {
		m := map[string]hMember{}
		for _, x := range heZoo(pkg) {
			m[x.name] = x
		}
		ix, _ = heIndexMemo.LoadOrStore(pkg, m)
	}
	m, ok := ix.(map[string]hMember)[name]
	return m, ok
}

// heScale: which members enter a universe and how many damaged inputs each gets (t1: omissions and failures placed inside
// every message, always wanted; t2: other structural damage; t3: raw truncations).
type heScale struct {
	bases      map[string][]string // per package; nil = every base
	shapes     map[string][]string // per package; nil = every shape of the family
	t1, t2, t3 int
}

var heScales = map[string]heScale{
	// the quick tier of C09
	"q": {
		bases: map[string][]string{"json": {"Plain", "Wide", "Rec", "OneM", "RT", "FailJ", "FailPT", "BadOut", "RawBad", "NaN", "FailKey", "Txt"},
			"proto":  {"Plain", "Maps", "Rec", "OneM", "CusF", "Hold"},
			"thrift": {"Opt", "Req", "ReqIn", "Plain", "UnionBad", "Set"}},
		shapes: map[string][]string{"json": {"T", "*T", "[]T", "map[string]T", "struct{F T}", "holder", "omitempty", "embedded", "map[string][]T", "[]any{T,&T}", "map[T]int", "struct{M map[T]string}"},
			"proto":  {"T", "{P *T}", "{R []T}", "{M map[string]T}", "{M map[int32]*T}", "all", "{M map[string]{R []*T}}", "{P *{M map[string]T}}"},
			"thrift": {"T", "*T", "{N T}", "{P *T}", "{R []T}", "{M map[string]T}", "all", "[]T", "map[string]T"}},
		t1: 14, t2: 6, t3: 4,
	},
	// the small budget run by the decode properties (C02, C07, C08)
	"s": {
		bases: map[string][]string{"json": {"Wide", "Rec", "OneM", "RT", "RawBad", "Txt"},
			"proto":  {"Plain", "Maps", "Rec", "CusF"},
			"thrift": {"Opt", "Req", "ReqIn", "Plain"}},
		shapes: map[string][]string{"json": {"T", "[]T", "map[string]T", "holder", "omitempty", "embedded", "map[T]int"},
			"proto":  {"T", "{R []T}", "{M map[string]T}", "{M map[int32]*T}", "all", "{P *{M map[string]T}}"},
			"thrift": {"T", "{N T}", "{R []T}", "{M map[string]T}", "all", "[]T"}},
		t1: 14, t2: 5, t3: 3,
	},
	// thorough
	"t": {
		bases: map[string][]string{"json": {"Plain", "Wide", "Rec", "OneM", "RT", "FailJ", "FailPT", "BadOut", "RawBad", "NaN", "FailKey", "Txt", "Big", "PUJ", "PUT", "VUJ",
			"IntV", "Ent", "EmbE", "EmbU", "Iface", "time.Time", "RawMessage", "Number", "big.Int", "netip.Addr", "OneP", "OneA", "PMJ", "Both", "Lvl"}},
		t1: 40, t2: 16, t3: 8,
	},
	// thorough, the decode properties
	"u": {
		bases: map[string][]string{"json": {"Plain", "Wide", "Rec", "OneM", "RT", "RawBad", "Txt", "Big", "PUJ", "Ent", "Iface", "time.Time", "Number", "OneP"}},
		t1:    24, t2: 10, t3: 6,
	},
}

func (sc heScale) keep(pkg, member string) bool {
	i := strings.IndexByte(member, '/')
	base, shape := member[:i], member[i+1:]
	has := func(xs []string, x string) bool {
		if xs == nil {
			return true
		}
		for _, y := range xs {
			if x == y {
				return true
			}
		}
		return false
	}
	return has(sc.bases[pkg], base) && has(sc.shapes[pkg], shape)
}

// ---- outcomes ---------------------------------------------------------------------------------------------------------------

// heClass: the class of an error: the Go types of its chain and the sentinel it wraps — never its text.
func heClass(err error) string {
	if err == nil {
		return ""
	}
	var parts []string
	for e := err; e != nil && len(parts) < 8; e = errors.Unwrap(e) {
		parts = append(parts, fmt.Sprintf("%T", e))
	}
	s := strings.Join(parts, ">")
	switch {
	case errors.Is(err, io.ErrUnexpectedEOF):
		s += "=UnexpectedEOF"
	case errors.Is(err, io.EOF):
		s += "=EOF"
	case errors.Is(err, io.ErrShortBuffer):
		s += "=ShortBuffer"
	case errors.Is(err, proto.ErrWireTypeUnknown):
		s += "=WireTypeUnknown"
	case errors.Is(err, errHeRefused):
		s += "=refused"
	case errors.Is(err, errHeWriter):
		s += "=writer"
	}
	return s
}

// heOut: the outcome of a decode call: the value, or the class of the error and what was stored before it.
func heOut(err error, p any) string {
	if err != nil {
		return "err:" + heClass(err) + "|" + hDump(p)
	}
	return hDump(p)
}

func heEnc(err error, b []byte, text bool) string {
	if err != nil {
		return "err:" + heClass(err)
	}
	if text {
		return string(b)
	}
	return hex.EncodeToString(b)
}

func heGuard(f func() string) (s string) {
	defer func() {
		if r := recover(); r != nil {
			s = "panic:" + fmt.Sprintf("%T", r)
		}
	}()
	return f()
}

// heRefEq: agreement with the reference implementation: the same outcome, or an error on both sides.
func heRefEq(got, want string) bool {
	g, w := strings.Split(got, "\x1e"), strings.Split(want, "\x1e")
	if len(g) != len(w) {
		return false
	}
	for i := range g {
		ge, we := strings.HasPrefix(g[i], "err:"), strings.HasPrefix(w[i], "err:")
		if ge != we || (!ge && g[i] != w[i]) {
			return false
		}
	}
	return true
}

// ---- reused objects ---------------------------------------------------------------------------------------------------------

// heObjs: the objects that the calls of a process reuse (a call takes one, or makes it when there is none, and gives it
// back): in a fresh process the call gets a fresh object.
var heObjs = struct {
	mu sync.Mutex
	m  map[string][]any
}{m: map[string][]any{}}

func heTake(kind string) any {
	heObjs.mu.Lock()
	defer heObjs.mu.Unlock()
	l := heObjs.m[kind]
	if len(l) == 0 {
		return nil
	}
	x := l[len(l)-1]
	heObjs.m[kind] = l[:len(l)-1]
	return x
}

func hePut(kind string, x any) {
	heObjs.mu.Lock()
	heObjs.m[kind] = append(heObjs.m[kind], x)
	heObjs.mu.Unlock()
}

type heJSONEnc struct {
	enc *json.Encoder
	buf *bytes.Buffer
}

var errHeWriter = errors.New("writer full")

// heLimitWriter fails once n bytes were written.
type heLimitWriter struct{ n int }

func (w *heLimitWriter) Write(p []byte) (int, error) {
	if len(p) > w.n {
		n := w.n
		w.n = 0
		return n, errHeWriter
	}
	w.n -= len(p)
	return len(p), nil
}

// ---- the calls ----------------------------------------------------------------------------------------------------------------

type heJSONLib struct {
	marshal   func(any) ([]byte, error)
	unmarshal func([]byte, any) error
	encode    func(*bytes.Buffer, any) error
	decoder   func(io.Reader, bool) func(any) error
}

var heSegJSON = heJSONLib{json.Marshal, json.Unmarshal,
	func(b *bytes.Buffer, v any) error { return json.NewEncoder(b).Encode(v) },
	func(r io.Reader, strict bool) func(any) error {
		d := json.NewDecoder(r)
		if strict {
			d.DisallowUnknownFields()
		}
		return d.Decode
	}}

var heStdJSON = heJSONLib{stdjson.Marshal, stdjson.Unmarshal,
	func(b *bytes.Buffer, v any) error { return stdjson.NewEncoder(b).Encode(v) },
	func(r io.Reader, strict bool) func(any) error {
		d := stdjson.NewDecoder(r)
		if strict {
			d.DisallowUnknownFields()
		}
		return d.Decode
	}}

func heJSONCall(lib *heJSONLib, ref bool, m hMember, op string, in []byte) string {
	switch op {
	case "Marshal":
		b, err := lib.marshal(m.val())
		return heEnc(err, b, true)
	case "Encode":
		var buf bytes.Buffer
		err := lib.encode(&buf, m.val())
		return heEnc(err, buf.Bytes(), true)
	case "EncodeReused":
		if ref {
			var buf bytes.Buffer
			err := lib.encode(&buf, m.val())
			return heEnc(err, buf.Bytes(), true)
		}
		e, _ := heTake("json.Encoder").(*heJSONEnc)
		if e == nil {
			e = &heJSONEnc{buf: new(bytes.Buffer)}
			e.enc = json.NewEncoder(e.buf)
		}
		defer hePut("json.Encoder", e)
		e.buf.Reset()
		err := e.enc.Encode(m.val())
		return heEnc(err, e.buf.Bytes(), true)
	case "Unmarshal":
		p := m.ptr()
		return heOut(lib.unmarshal(in, p), p)
	case "Decode", "DecodeStrict":
		p := m.ptr()
		dec := lib.decoder(bytes.NewReader(append(append([]byte{}, in...), ' ')), op == "DecodeStrict")
		return heOut(dec(p), p)
	case "DecodeStream":
		// one Decoder, several documents (some of another kind, some with members missing)
		dec := lib.decoder(bytes.NewReader(append(append([]byte{}, in...), '\n')), false)
		var outs []string
		for i := 0; i < 6; i++ {
			p := m.ptr()
			err := dec(p)
			if err == io.EOF {
				break
			}
			outs = append(outs, heOut(err, p))
			var se *stdjson.SyntaxError
			if errors.As(err, &se) || errors.Is(err, io.ErrUnexpectedEOF) {
				break // a syntax error: the decoder does not go past it
			}
		}
		return strings.Join(outs, "\x1e")
	}
	return "no-such-op"
}

func heProtoCall(m hMember, op string, in []byte) string {
	switch op {
	case "Marshal":
		b, err := proto.Marshal(m.val())
		return heEnc(err, b, false)
	case "Size":
		return strconv.Itoa(proto.Size(m.val()))
	case "MarshalToReused":
		v := m.val()
		b, _ := heTake("proto.buf").([]byte)
		if b == nil {
			b = bytes.Repeat([]byte{0xaa}, 1<<12)
		}
		defer hePut("proto.buf", b)
		n := proto.Size(v)
		if n > len(b) {
			return "too-long"
		}
		k, err := proto.MarshalTo(b[:n], v)
		if err != nil {
			return "err:" + heClass(err)
		}
		return hex.EncodeToString(b[:k])
	case "MarshalToShort":
		v := m.val()
		n := proto.Size(v)
		if n == 0 {
			return "empty"
		}
		_, err := proto.MarshalTo(make([]byte, n-1), v)
		if err != nil {
			return "err:" + heClass(err)
		}
		return "accepted"
	case "Unmarshal":
		p := m.ptr()
		return heOut(proto.Unmarshal(in, p), p)
	}
	return "no-such-op"
}

func heThriftProto(op string) (thrift.Protocol, string) {
	if strings.HasSuffix(op, "Compact") {
		return new(thrift.CompactProtocol), strings.TrimSuffix(op, "Compact")
	}
	return new(thrift.BinaryProtocol), strings.TrimSuffix(op, "Binary")
}

func heThriftCall(m hMember, op string, in []byte) string {
	p, op := heThriftProto(op)
	switch op {
	case "Marshal":
		b, err := thrift.Marshal(p, m.val())
		return heEnc(err, b, false)
	case "MarshalLimited":
		// the writer fails half way (in = the length of the full encoding)
		n := 0
		if len(in) > 0 {
			n = int(in[0]) / 2
		}
		err := thrift.NewEncoder(p.NewWriter(&heLimitWriter{n})).Encode(m.val())
		return heEnc(err, nil, false)
	case "EncodeReused":
		var buf bytes.Buffer
		e, _ := heTake("thrift.Encoder").(*thrift.Encoder)
		if e == nil {
			e = thrift.NewEncoder(p.NewWriter(&buf))
		} else {
			e.Reset(p.NewWriter(&buf))
		}
		defer hePut("thrift.Encoder", e)
		err := e.Encode(m.val())
		return heEnc(err, buf.Bytes(), false)
	case "Unmarshal":
		x := m.ptr()
		return heOut(thrift.Unmarshal(p, in, x), x)
	case "DecodeStrict":
		x := m.ptr()
		d := thrift.NewDecoder(p.NewReader(bytes.NewReader(in)))
		d.SetStrict(true)
		return heOut(d.Decode(x), x)
	case "DecodeReused", "DecodeStrictReused":
		x := m.ptr()
		d, _ := heTake("thrift.Decoder").(*thrift.Decoder)
		if d == nil {
			d = thrift.NewDecoder(p.NewReader(bytes.NewReader(in)))
		} else {
			d.Reset(p.NewReader(bytes.NewReader(in)))
		}
		defer hePut("thrift.Decoder", d)
		d.SetStrict(op == "DecodeStrictReused")
		return heOut(d.Decode(x), x)
	}
	return "no-such-op"
}

// heSpec: a call written down: pkg/member/op@input (hex).
func heSpec(pkg, member, op string, in []byte) string {
	return pkg + "/" + member + "/" + op + "@" + hx(in)
}

func heParseSpec(s string) (pkg, member, op string, in []byte, ok bool) {
	i, j, k := strings.IndexByte(s, '/'), strings.LastIndexByte(s, '/'), strings.LastIndexByte(s, '@')
	if i < 0 || j <= i || k < j {
		return
	}
	b, err := hex.DecodeString(strings.TrimPrefix(s[k+1:], "-"))
	if err != nil {
		return
	}
	return s[:i], s[i+1 : j], s[j+1 : k], b, true
}

// heCall executes a call; ref: on the reference implementation (json only; "" when there is none).
func heCall(spec string, ref bool) string {
	pkg, member, op, in, ok := heParseSpec(spec)
	if !ok {
		return "bad-spec"
	}
	m, ok := heMember(pkg, member)
	if !ok {
		return "no-such-member"
	}
	return heGuard(func() string {
		switch pkg {
		case "json":
			if ref {
				return heJSONCall(&heStdJSON, true, m, op, in)
			}
			return heJSONCall(&heSegJSON, false, m, op, in)
		case "proto":
			return heProtoCall(m, op, in)
		case "thrift":
			return heThriftCall(m, op, in)
		}
		return "no-such-pkg"
	})
}

// heGroup: the calls that share codec state: the calls on one Go type.
func heGroup(spec string) string {
	pkg, member, _, _, ok := heParseSpec(spec)
	if !ok {
		return spec
	}
	m, ok := heMember(pkg, member)
	if !ok {
		return spec
	}
	t := reflect.TypeOf(m.ptr())
	for t.Kind() == reflect.Ptr {
		t = t.Elem()
	}
	return pkg + ":" + t.String()
}

// ---- damaged inputs -------------------------------------------------------------------------------------------------------------

// heVar: an input derived from a valid one. tier 1: omissions and failures inside a message; 2: other structural damage;
// 3: raw truncation.
type heVar struct {
	tier int
	b    []byte
}

// hePick: at most n of the variants, evenly spread.
func hePick(vs [][]byte, n int) [][]byte {
	if len(vs) <= n {
		return vs
	}
	out := make([][]byte, 0, n)
	for i := 0; i < n; i++ {
		out = append(out, vs[i*len(vs)/n])
	}
	return out
}

// heSelect: the variants of the three tiers within the budget of the scale, without duplicates and without the valid input.
func heSelect(valid []byte, vars []heVar, sc heScale) [][]byte {
	seen := map[string]bool{string(valid): true}
	tiers := make([][][]byte, 4)
	for _, v := range vars {
		if seen[string(v.b)] || v.tier < 1 || v.tier > 3 {
			continue
		}
		seen[string(v.b)] = true
		tiers[v.tier] = append(tiers[v.tier], v.b)
	}
	var out [][]byte
	out = append(out, hePick(tiers[1], sc.t1)...)
	out = append(out, hePick(tiers[2], sc.t2)...)
	out = append(out, hePick(tiers[3], sc.t3)...)
	return out
}

func heCuts(b []byte) []heVar {
	var vs []heVar
	for n := 1; n < len(b); n++ {
		vs = append(vs, heVar{3, append([]byte{}, b[:n]...)})
	}
	return vs
}

// -- proto: a wire-level tree (a varlen payload that parses as a message with small field numbers is taken as one)

type hePN struct {
	num  uint64
	wt   int
	val  []byte // varint / fixed bytes, or the payload of a varlen field
	kids []*hePN
	msg  bool
	raw  []byte // written in place of the field
}

func heProtoParse(b []byte, depth int) ([]*hePN, bool) {
	var ns []*hePN
	for len(b) > 0 {
		tag, n := binary.Uvarint(b)
		if n <= 0 || tag>>3 == 0 || tag>>3 > 63 {
			return nil, false
		}
		b = b[n:]
		x := &hePN{num: tag >> 3, wt: int(tag & 7)}
		switch x.wt {
		case 0:
			_, n := binary.Uvarint(b)
			if n <= 0 {
				return nil, false
			}
			x.val, b = b[:n], b[n:]
		case 1, 5:
			n := 8
			if x.wt == 5 {
				n = 4
			}
			if len(b) < n {
				return nil, false
			}
			x.val, b = b[:n], b[n:]
		case 2:
			l, n := binary.Uvarint(b)
			if n <= 0 || l > uint64(len(b)-n) {
				return nil, false
			}
			x.val, b = b[n:n+int(l)], b[n+int(l):]
			if depth < 12 && len(x.val) > 0 {
				x.kids, x.msg = heProtoParse(x.val, depth+1)
			}
		default:
			return nil, false
		}
		ns = append(ns, x)
	}
	return ns, true
}

func heProtoSer(ns []*hePN) []byte {
	var out []byte
	for _, x := range ns {
		if x.raw != nil {
			out = append(out, x.raw...)
			continue
		}
		out = binary.AppendUvarint(out, x.num<<3|uint64(x.wt))
		if x.wt == 2 {
			p := x.val
			if x.msg {
				p = heProtoSer(x.kids)
			}
			out = binary.AppendUvarint(out, uint64(len(p)))
			out = append(out, p...)
		} else {
			out = append(out, x.val...)
		}
	}
	return out
}

func heProtoClone(ns []*hePN) []*hePN {
	out := make([]*hePN, len(ns))
	for i, x := range ns {
		c := *x
		c.kids = heProtoClone(x.kids)
		out[i] = &c
	}
	return out
}

// heProtoVars: the damaged / sparse inputs derived from a valid proto encoding.
func heProtoVars(valid []byte) []heVar {
	root, ok := heProtoParse(valid, 0)
	if !ok {
		return heCuts(valid)
	}
	var vs []heVar
	// mut: a copy of the tree with the field list of the message at path replaced by f(list)
	mut := func(path []int, tier int, f func([]*hePN) []*hePN) {
		c := heProtoClone(root)
		if len(path) == 0 {
			c = f(c)
		} else {
			l := c
			for _, i := range path[:len(path)-1] {
				l = l[i].kids
			}
			x := l[path[len(path)-1]]
			x.kids = f(x.kids)
		}
		vs = append(vs, heVar{tier, heProtoSer(c)})
	}
	tagOf := func(num uint64, wt int) []byte { return binary.AppendUvarint(nil, num<<3|uint64(wt)) }
	var walk func(path []int, ks []*hePN)
	walk = func(path []int, ks []*hePN) {
		path = append([]int{}, path...)
		first := uint64(1)
		fwt := 0
		if len(ks) > 0 {
			first, fwt = ks[0].num, ks[0].wt
		}
		tail := func(tier int, raw []byte) {
			mut(path, tier, func(l []*hePN) []*hePN { return append(l, &hePN{raw: raw}) })
		}
		// a broken field after the valid ones: everything before it was decoded when the error is met
		other := 0
		payload := []byte{1}
		if fwt == 0 {
			other, payload = 2, []byte{1, 0}
		}
		tail(1, append(tagOf(first, other), payload...)) // the first field again, with another wire type
		tail(2, tagOf(first, fwt))                       // a tag and nothing behind it
		tail(2, append(tagOf(first, 0), 0xff, 0xff, 0xff, 0xff, 0xff, 0xff, 0xff, 0xff, 0xff, 0xff, 0x01))
		tail(2, append(tagOf(first, 2), 0x7f))    // a length that goes beyond the end
		tail(2, tagOf(first, 7))                  // a wire type that does not exist
		tail(2, append(tagOf(61, 0), 0x2a))       // unknown fields: skipped
		tail(2, append(tagOf(62, 2), 2, 0x08, 1)) //
		for k := range ks {
			k := k
			mut(path, 1, func(l []*hePN) []*hePN { return append(append([]*hePN{}, l[:k]...), l[k+1:]...) }) // field k absent
			if k > 0 {
				mut(path, 2, func(l []*hePN) []*hePN { return l[:k] }) // cut after field k-1 (lengths adjusted: a valid sparse message)
			}
			mut(path, 2, func(l []*hePN) []*hePN { // another wire type in place, the payload bytes unchanged
				c := *l[k]
				enc := heProtoSer([]*hePN{&c})
				t := tagOf(c.num, c.wt)
				nwt := 0
				if c.wt == 0 {
					nwt = 5
				}
				l[k] = &hePN{raw: append(tagOf(c.num, nwt), enc[len(t):]...)}
				return l
			})
			mut(path, 2, func(l []*hePN) []*hePN { // the last byte of the field is missing (enclosing lengths adjusted)
				enc := heProtoSer([]*hePN{l[k]})
				l[k] = &hePN{raw: enc[:len(enc)-1]}
				return l
			})
			mut(path, 2, func(l []*hePN) []*hePN { return append(l, l[k]) }) // the field twice
		}
		if len(ks) > 1 {
			mut(path, 1, func(l []*hePN) []*hePN { return nil }) // an empty message
		}
		for k, x := range ks {
			if x.msg {
				walk(append(path, k), x.kids)
			}
		}
	}
	walk(nil, root)
	return append(vs, heCuts(valid)...)
}

// -- thrift: the tree read through the protocol Reader of the library and written back through its Writer

type heTN struct {
	typ    thrift.Type // BOOL for both truth values
	id     int16
	b      bool
	i      int64
	f      float64
	s      []byte
	kt, vt thrift.Type
	kids   []*heTN // struct: fields; list / set: elements; map: key, value, key, value …
	rawv   []byte  // written in place of the value
	extra  int32   // added to the size that a list / set / map announces
	off    int     // where the field / element starts in the serialization
}

func heTRead(r thrift.Reader, t thrift.Type, depth int) (*heTN, error) {
	n := &heTN{typ: t}
	if depth > 40 {
		return nil, errors.New("deep")
	}
	var err error
	switch t {
	case thrift.TRUE, thrift.FALSE:
		n.typ = thrift.BOOL
		n.b, err = r.ReadBool()
	case thrift.I8:
		var v int8
		v, err = r.ReadInt8()
		n.i = int64(v)
	case thrift.I16:
		var v int16
		v, err = r.ReadInt16()
		n.i = int64(v)
	case thrift.I32:
		var v int32
		v, err = r.ReadInt32()
		n.i = int64(v)
	case thrift.I64:
		n.i, err = r.ReadInt64()
	case thrift.DOUBLE:
		n.f, err = r.ReadFloat64()
	case thrift.BINARY:
		var b []byte
		b, err = r.ReadBytes()
		n.s = append([]byte{}, b...)
	case thrift.LIST, thrift.SET:
		var l thrift.List
		if t == thrift.LIST {
			l, err = r.ReadList()
		} else {
			var s thrift.Set
			s, err = r.ReadSet()
			l = thrift.List(s)
		}
		if err != nil {
			return nil, err
		}
		n.vt = l.Type
		for i := 0; i < int(l.Size); i++ {
			k, err := heTRead(r, l.Type, depth+1)
			if err != nil {
				return nil, err
			}
			n.kids = append(n.kids, k)
		}
	case thrift.MAP:
		m, err := r.ReadMap()
		if err != nil {
			return nil, err
		}
		n.kt, n.vt = m.Key, m.Value
		for i := 0; i < int(m.Size); i++ {
			for _, t := range []thrift.Type{m.Key, m.Value} {
				k, err := heTRead(r, t, depth+1)
				if err != nil {
					return nil, err
				}
				n.kids = append(n.kids, k)
			}
		}
	case thrift.STRUCT:
		coalesce := r.Protocol().Features()&thrift.CoalesceBoolFields != 0
		last := int16(0)
		for {
			f, err := r.ReadField()
			if err != nil {
				return nil, err
			}
			if f.Type == thrift.STOP {
				break
			}
			if f.Delta {
				f.ID += last
			}
			last = f.ID
			var k *heTN
			if coalesce && (f.Type == thrift.TRUE || f.Type == thrift.FALSE) {
				k = &heTN{typ: thrift.BOOL, b: f.Type == thrift.TRUE}
			} else if k, err = heTRead(r, f.Type, depth+1); err != nil {
				return nil, err
			}
			k.id = f.ID
			n.kids = append(n.kids, k)
		}
	default:
		return nil, errors.New("type")
	}
	return n, err
}

func heTWrite(w thrift.Writer, buf *bytes.Buffer, n *heTN) {
	if n.rawv != nil {
		w.Writer().Write(n.rawv)
		return
	}
	switch n.typ {
	case thrift.BOOL, thrift.TRUE:
		w.WriteBool(n.b)
	case thrift.I8:
		w.WriteInt8(int8(n.i))
	case thrift.I16:
		w.WriteInt16(int16(n.i))
	case thrift.I32:
		w.WriteInt32(int32(n.i))
	case thrift.I64:
		w.WriteInt64(n.i)
	case thrift.DOUBLE:
		w.WriteFloat64(n.f)
	case thrift.BINARY:
		w.WriteBytes(n.s)
	case thrift.LIST, thrift.SET:
		l := thrift.List{Size: int32(len(n.kids)) + n.extra, Type: n.vt}
		if n.typ == thrift.LIST {
			w.WriteList(l)
		} else {
			w.WriteSet(thrift.Set(l))
		}
		for _, k := range n.kids {
			k.off = buf.Len()
			heTWrite(w, buf, k)
		}
	case thrift.MAP:
		w.WriteMap(thrift.Map{Size: int32(len(n.kids)/2) + n.extra, Key: n.kt, Value: n.vt})
		for _, k := range n.kids {
			k.off = buf.Len()
			heTWrite(w, buf, k)
		}
	case thrift.STRUCT:
		feat := w.Protocol().Features()
		last := int16(0)
		for _, k := range n.kids {
			k.off = buf.Len()
			f := thrift.Field{ID: k.id, Type: k.typ}
			skip := false
			if k.typ == thrift.BOOL && k.rawv == nil && feat&thrift.CoalesceBoolFields != 0 {
				skip = true
				if k.b {
					f.Type = thrift.TRUE
				}
			}
			if d := k.id - last; feat&thrift.UseDeltaEncoding != 0 && d > 0 && d <= 15 {
				f.ID, f.Delta = d, true
			}
			w.WriteField(f)
			if !skip {
				heTWrite(w, buf, k)
			}
			last = k.id
		}
		w.WriteField(thrift.Field{Type: thrift.STOP})
	}
}

func heTSer(p thrift.Protocol, n *heTN) []byte {
	var buf bytes.Buffer
	heTWrite(p.NewWriter(&buf), &buf, n)
	return append([]byte{}, buf.Bytes()...)
}

func heTClone(n *heTN) *heTN {
	c := *n
	c.kids = make([]*heTN, len(n.kids))
	for i, k := range n.kids {
		c.kids[i] = heTClone(k)
	}
	return &c
}

// heTOther: a value of another type than n's (what a peer with another schema would send for the field).
func heTOther(n *heTN) *heTN {
	switch n.typ {
	case thrift.BINARY:
		return &heTN{typ: thrift.I64, id: n.id, i: 7}
	case thrift.STRUCT:
		return &heTN{typ: thrift.LIST, id: n.id, vt: thrift.I32, kids: []*heTN{{typ: thrift.I32, i: 1}}}
	case thrift.LIST, thrift.SET, thrift.MAP:
		return &heTN{typ: thrift.STRUCT, id: n.id, kids: []*heTN{{typ: thrift.I32, id: 1, i: 5}}}
	}
	return &heTN{typ: thrift.BINARY, id: n.id, s: []byte("zz")}
}

func heThriftRootType(v any) thrift.Type {
	t := reflect.TypeOf(v)
	for t.Kind() == reflect.Ptr {
		t = t.Elem()
	}
	switch t.Kind() {
	case reflect.Slice:
		return thrift.LIST
	case reflect.Map:
		if t.Elem().Kind() == reflect.Struct && t.Elem().NumField() == 0 {
			return thrift.SET
		}
		return thrift.MAP
	}
	return thrift.STRUCT
}

// heThriftVars: the damaged / sparse inputs derived from a valid thrift encoding of a value whose outermost type is rt.
func heThriftVars(p thrift.Protocol, rt thrift.Type, valid []byte) []heVar {
	root, err := heTRead(p.NewReader(bytes.NewReader(valid)), rt, 0)
	if err != nil {
		return heCuts(valid)
	}
	pristine := heTSer(p, root) // also records the offsets
	if !bytes.Equal(pristine, valid) {
		return heCuts(valid)
	}
	var vs []heVar
	_, compact := p.(*thrift.CompactProtocol)
	// mut: a copy of the tree with the node at path changed by f
	mut := func(path []int, tier int, f func(*heTN)) {
		c := heTClone(root)
		x := c
		for _, i := range path {
			x = x.kids[i]
		}
		f(x)
		vs = append(vs, heVar{tier, heTSer(p, c)})
	}
	cut := func(tier, at int) {
		if at > 0 && at < len(valid) {
			vs = append(vs, heVar{tier, append([]byte{}, valid[:at]...)})
		}
	}
	var walk func(path []int, n *heTN)
	walk = func(path []int, n *heTN) {
		path = append([]int{}, path...)
		switch n.typ {
		case thrift.STRUCT:
			for k := range n.kids {
				k := k
				mut(path, 1, func(x *heTN) { x.kids = append(append([]*heTN{}, x.kids[:k]...), x.kids[k+1:]...) }) // field k absent
				mut(path, 1, func(x *heTN) { x.kids[k] = heTOther(x.kids[k]) })                                    // field k with another type
				mut(path, 2, func(x *heTN) { x.kids = append(x.kids, x.kids[k]) })                                 // field k twice (out of order)
				switch n.kids[k].typ {
				case thrift.I16, thrift.I32, thrift.I64:
					if compact { // an over-long varint
						mut(path, 2, func(x *heTN) {
							x.kids[k].rawv = []byte{0xff, 0xff, 0xff, 0xff, 0xff, 0xff, 0xff, 0xff, 0xff, 0xff, 0x01}
						})
					}
				case thrift.BINARY: // a length that is out of range / beyond the end
					mut(path, 2, func(x *heTN) {
						if compact {
							x.kids[k].rawv = []byte{0xff, 0xff, 0xff, 0xff, 0xff, 0xff, 0xff, 0xff, 0xff, 0xff, 0x01}
						} else {
							x.kids[k].rawv = []byte{0xff, 0xff, 0xff, 0xff}
						}
					})
					mut(path, 2, func(x *heTN) {
						if compact {
							x.kids[k].rawv = []byte{0x7f, 'a'}
						} else {
							x.kids[k].rawv = []byte{0, 0, 0, 0x7f, 'a'}
						}
					})
				}
			}
			if len(n.kids) > 1 {
				mut(path, 1, func(x *heTN) { x.kids = nil }) // an empty struct
				last := n.kids[len(n.kids)-1]
				cut(1, last.off+1) // the earlier fields, then a truncated last one
				if len(path) == 0 {
					cut(1, len(valid)-1)
				}
			}
			mut(path, 2, func(x *heTN) { // unknown fields: skipped
				x.kids = append(x.kids, &heTN{typ: thrift.STRUCT, id: 99, kids: []*heTN{{typ: thrift.LIST, id: 1, vt: thrift.I64, kids: []*heTN{{typ: thrift.I64, i: 3}}}}},
					&heTN{typ: thrift.BOOL, id: 100, b: true})
			})
			mut(path, 2, func(x *heTN) { x.kids = append([]*heTN{{typ: thrift.BINARY, id: -3, s: []byte("u")}}, x.kids...) })
		case thrift.LIST, thrift.SET:
			if len(n.kids) > 0 {
				mut(path, 1, func(x *heTN) { x.kids = x.kids[:len(x.kids)-1] }) // one element less
				mut(path, 2, func(x *heTN) { x.extra = 1 })                     // one element announced and not sent
				mut(path, 2, func(x *heTN) {                                    // elements of another type
					o := heTOther(x.kids[0])
					x.vt, x.kids = o.typ, []*heTN{o}
				})
			}
			mut(path, 2, func(x *heTN) { x.kids = nil })
		case thrift.MAP:
			if len(n.kids) > 0 {
				mut(path, 2, func(x *heTN) { x.extra = 1 })
				mut(path, 1, func(x *heTN) { x.kids = nil }) // an empty map
				mut(path, 2, func(x *heTN) {                 // values of another type
					o := heTOther(x.kids[1])
					x.vt, x.kids = o.typ, []*heTN{x.kids[0], o}
				})
				cut(2, n.kids[1].off) // the entry cut after its key
			}
		}
		for k, x := range n.kids {
			cut(3, x.off)
			cut(3, x.off+1)
			if x.typ == thrift.STRUCT || x.typ == thrift.LIST || x.typ == thrift.SET || x.typ == thrift.MAP {
				walk(append(path, k), x)
			}
		}
	}
	walk(nil, root)
	cut(3, 1)
	cut(3, len(valid)/2)
	vs = append(vs, heVar{3, append(append([]byte{}, valid...), 0)}) // a trailing byte
	return vs
}

// -- json: a token tree of the (compact, valid) text

type heJN struct {
	kind byte // { [ " 0 (number) l (literal)
	text string
	keys []string // quoted, as written
	kids []*heJN
}

type heJP struct {
	s   string
	pos int
	bad bool
}

func (p *heJP) ws() {
	for p.pos < len(p.s) && strings.IndexByte(" \t\r\n", p.s[p.pos]) >= 0 {
		p.pos++
	}
}

func (p *heJP) str() string {
	st := p.pos
	p.pos++
	for p.pos < len(p.s) && p.s[p.pos] != '"' {
		if p.s[p.pos] == '\\' {
			p.pos++
		}
		p.pos++
	}
	if p.pos >= len(p.s) {
		p.bad = true
		return ""
	}
	p.pos++
	return p.s[st:p.pos]
}

func (p *heJP) value(depth int) *heJN {
	p.ws()
	if p.pos >= len(p.s) || depth > 60 {
		p.bad = true
		return nil
	}
	switch c := p.s[p.pos]; {
	case c == '{' || c == '[':
		n := &heJN{kind: c}
		end := byte('}')
		if c == '[' {
			end = ']'
		}
		p.pos++
		for {
			p.ws()
			if p.pos < len(p.s) && p.s[p.pos] == end {
				p.pos++
				return n
			}
			if len(n.kids) > 0 {
				if p.pos >= len(p.s) || p.s[p.pos] != ',' {
					p.bad = true
					return nil
				}
				p.pos++
				p.ws()
			}
			if c == '{' {
				if p.pos >= len(p.s) || p.s[p.pos] != '"' {
					p.bad = true
					return nil
				}
				n.keys = append(n.keys, p.str())
				p.ws()
				if p.bad || p.pos >= len(p.s) || p.s[p.pos] != ':' {
					p.bad = true
					return nil
				}
				p.pos++
			}
			k := p.value(depth + 1)
			if p.bad {
				return nil
			}
			n.kids = append(n.kids, k)
		}
	case c == '"':
		return &heJN{kind: '"', text: p.str()}
	default:
		st := p.pos
		for p.pos < len(p.s) && strings.IndexByte(",]} \t\r\n", p.s[p.pos]) < 0 {
			p.pos++
		}
		if p.pos == st {
			p.bad = true
			return nil
		}
		k := byte('l')
		if c == '-' || (c >= '0' && c <= '9') {
			k = '0'
		}
		return &heJN{kind: k, text: p.s[st:p.pos]}
	}
}

func heJSer(sb *strings.Builder, n *heJN) {
	switch n.kind {
	case '{':
		sb.WriteByte('{')
		for i, k := range n.kids {
			if i > 0 {
				sb.WriteByte(',')
			}
			sb.WriteString(n.keys[i] + ":")
			heJSer(sb, k)
		}
		sb.WriteByte('}')
	case '[':
		sb.WriteByte('[')
		for i, k := range n.kids {
			if i > 0 {
				sb.WriteByte(',')
			}
			heJSer(sb, k)
		}
		sb.WriteByte(']')
	default:
		sb.WriteString(n.text)
	}
}

func heJClone(n *heJN) *heJN {
	c := *n
	c.keys = append([]string{}, n.keys...)
	c.kids = make([]*heJN, len(n.kids))
	for i, k := range n.kids {
		c.kids[i] = heJClone(k)
	}
	return &c
}

// heJSONVars: the damaged / sparse texts derived from a valid JSON text; typeErr: texts that are valid JSON of another kind
// somewhere (for the stream calls), sparse: valid texts with a member missing.
func heJSONVars(valid string) (vs []heVar, typeErr, sparse []string) {
	p := &heJP{s: valid}
	root := p.value(0)
	p.ws()
	if p.bad || p.pos != len(valid) {
		return heCuts([]byte(valid)), nil, nil
	}
	mut := func(path []int, tier int, f func(*heJN)) string {
		c := heJClone(root)
		x := c
		for _, i := range path {
			x = x.kids[i]
		}
		f(x)
		var sb strings.Builder
		heJSer(&sb, c)
		vs = append(vs, heVar{tier, []byte(sb.String())})
		return sb.String()
	}
	set := func(x *heJN, kind byte, text string) { *x = heJN{kind: kind, text: text} }
	var walk func(path []int, n *heJN)
	walk = func(path []int, n *heJN) {
		path = append([]int{}, path...)
		// the value with another kind, null
		switch n.kind {
		case '{':
			typeErr = append(typeErr, mut(path, 1, func(x *heJN) { set(x, 'l', `[1,"a"]`) }))
			mut(path, 2, func(x *heJN) { set(x, '"', `"str"`) })
		case '[':
			typeErr = append(typeErr, mut(path, 1, func(x *heJN) { set(x, 'l', `{"zz":1}`) }))
			mut(path, 2, func(x *heJN) { set(x, '0', `12`) })
		case '"':
			typeErr = append(typeErr, mut(path, 1, func(x *heJN) { set(x, '0', `12`) }))
			mut(path, 2, func(x *heJN) { set(x, '"', `"\x"`) })
			mut(path, 2, func(x *heJN) { set(x, 'l', `[]`) })
		case '0':
			typeErr = append(typeErr, mut(path, 1, func(x *heJN) { set(x, '"', `"str"`) }))
			mut(path, 2, func(x *heJN) { set(x, '0', `1e400`) })
			mut(path, 2, func(x *heJN) { set(x, '0', `123456789012345678901234567890`) })
			mut(path, 2, func(x *heJN) { set(x, 'l', `{}`) })
			mut(path, 2, func(x *heJN) { set(x, '0', `-`) })
		default:
			typeErr = append(typeErr, mut(path, 1, func(x *heJN) { set(x, '0', `3`) }))
		}
		mut(path, 2, func(x *heJN) { set(x, 'l', `null`) })
		if n.kind == '{' {
			for k := range n.kids {
				k := k
				sparse = append(sparse, mut(path, 1, func(x *heJN) { // member k absent
					x.keys = append(append([]string{}, x.keys[:k]...), x.keys[k+1:]...)
					x.kids = append(append([]*heJN{}, x.kids[:k]...), x.kids[k+1:]...)
				}))
				mut(path, 2, func(x *heJN) { // member k twice
					x.keys = append(x.keys, x.keys[k])
					x.kids = append(x.kids, x.kids[k])
				})
			}
			if len(n.kids) > 1 {
				sparse = append(sparse, mut(path, 1, func(x *heJN) { x.keys, x.kids = nil, nil }))
			}
			mut(path, 1, func(x *heJN) { // an unknown member
				x.keys = append(x.keys, `"zz_unknown"`)
				x.kids = append(x.kids, &heJN{kind: 'l', text: `{"a":[1,{"b":null}]}`})
			})
			mut(path, 2, func(x *heJN) { // a member without a value
				x.keys = append(x.keys, `"zz"`)
				x.kids = append(x.kids, &heJN{kind: 'l', text: ``})
			})
		}
		if n.kind == '[' {
			if len(n.kids) > 0 {
				mut(path, 1, func(x *heJN) { x.kids = x.kids[:len(x.kids)-1] })
				mut(path, 2, func(x *heJN) { x.kids = append(x.kids, x.kids[0], x.kids[0]) })
			}
			mut(path, 2, func(x *heJN) { x.kids = append(x.kids, &heJN{kind: 'l', text: ``}) }) // a trailing comma
		}
		for k, x := range n.kids {
			walk(append(path, k), x)
		}
	}
	walk(nil, root)
	vs = append(vs, heCuts([]byte(valid))...)
	vs = append(vs, heVar{3, []byte(valid + "]")}, heVar{3, []byte(valid + " 1")})
	return vs, typeErr, sparse
}

// ---- the universe ---------------------------------------------------------------------------------------------------------------

var heUnivMemo sync.Map

// heUniverse: the calls of pkg at a scale (computed by the parent process, which may call the library as it likes; the
// children get the calls written down).
func heUniverse(pkg, scale string) []string {
	key := pkg + "/" + scale
	if u, ok := heUnivMemo.Load(key); ok {
		return u.([]string)
	}
	sc, ok := heScales[scale]
	if !ok {
		sc = heScales["q"]
	}
	var specs []string
	add := func(member, op string, in []byte) { specs = append(specs, heSpec(pkg, member, op, in)) }
	for _, m := range heZoo(pkg) {
		if !sc.keep(pkg, m.name) {
			continue
		}
		switch pkg {
		case "json":
			for _, op := range []string{"Marshal", "Encode", "EncodeReused"} {
				add(m.name, op, nil)
			}
			ops := []string{"Unmarshal", "Decode", "DecodeStrict"}
			for _, op := range ops {
				add(m.name, op, []byte(m.src))
			}
			vars, typeErr, sparse := heJSONVars(m.src)
			for j, b := range heSelect([]byte(m.src), vars, sc) {
				add(m.name, ops[j%len(ops)], b)
			}
			if len(typeErr) > 0 && len(sparse) > 0 {
				add(m.name, "DecodeStream", []byte(typeErr[0]+"\n"+sparse[len(sparse)-1]+" "+m.src+"\n"+typeErr[len(typeErr)-1]+sparse[0]))
			}
			add(m.name, "DecodeStream", []byte(m.src+m.src+" "+m.src))
		case "proto":
			for _, op := range []string{"Marshal", "Size", "MarshalToReused", "MarshalToShort"} {
				add(m.name, op, nil)
			}
			valid, err := heMarshalGuard(func() ([]byte, error) { return proto.Marshal(m.val()) })
			if err != nil {
				add(m.name, "Unmarshal", nil)
				continue
			}
			add(m.name, "Unmarshal", valid)
			for _, b := range heSelect(valid, heProtoVars(valid), sc) {
				add(m.name, "Unmarshal", b)
			}
		case "thrift":
			for _, pn := range []string{"Compact", "Binary"} {
				p, _ := heThriftProto(pn)
				valid, err := heMarshalGuard(func() ([]byte, error) { return thrift.Marshal(p, m.val()) })
				for _, op := range []string{"Marshal", "EncodeReused"} {
					add(m.name, op+pn, nil)
				}
				add(m.name, "MarshalLimited"+pn, []byte{byte(min(len(valid), 255))})
				if err != nil {
					continue
				}
				ops := []string{"Unmarshal", "DecodeStrictReused", "DecodeReused", "DecodeStrict"}
				for _, op := range ops {
					add(m.name, op+pn, valid)
				}
				vars := heThriftVars(p, heThriftRootType(m.val()), valid)
				seen := map[string]bool{string(valid): true}
				j := 0
				for _, v := range vars { // the inputs without a field: in both modes, whatever the budget
					if v.tier == 1 && !seen[string(v.b)] && len(v.b) < len(valid) && heThriftValid(p, heThriftRootType(m.val()), v.b) && j < 2*sc.t1 {
						seen[string(v.b)] = true
						add(m.name, ops[j%2]+pn, v.b)
						add(m.name, ops[2+j%2]+pn, v.b)
						j++
					}
				}
				for _, b := range heSelect(valid, vars, sc) {
					if !seen[string(b)] {
						add(m.name, ops[j%len(ops)]+pn, b)
						j++
					}
				}
			}
		}
	}
	heUnivMemo.Store(key, specs)
	return specs
}

// heThriftValid: b is a complete thrift value of type t (a sparse input rather than a damaged one).
func heThriftValid(p thrift.Protocol, t thrift.Type, b []byte) bool {
	r := bytes.NewReader(b)
	_, err := heTRead(p.NewReader(r), t, 0)
	return err == nil && r.Len() == 0
}

func heMarshalGuard(f func() ([]byte, error)) (b []byte, err error) {
	defer func() {
		if r := recover(); r != nil {
			err = errors.New("panic")
		}
	}()
	return f()
}

var heAloneMemo sync.Map

// heUniv: a universe ready to run: the calls and what each returns alone.
type heUniv struct {
	specs, alone []string
	heavy        int // calls left out: see heHeavy
}

// heHeavy: a call that allocates more than this when it runs alone is left out of the histories (thrift sizes its maps and
// slices by the count that the input announces — the known allocation finding, which damaged inputs that shift the
// decoder by a few bytes do trigger: gigabytes for a 200-byte input, fatal when several goroutines do it at once).
const heHeavy = 4 << 20

// hePrepared: the universe, the outcome of every call when it is the first library call of a fresh process, the calls that
// allocate too much (or die) alone removed.
func hePrepared(pkg, scale string) *heUniv {
	key := pkg + "/" + scale
	if a, ok := heAloneMemo.Load(key); ok {
		return a.(*heUniv)
	}
	specs := heUniverse(pkg, scale)
	exe, _ := os.Executable()
	res := make([]string, len(specs))
	alloc := make([]int, len(specs))
	var wg sync.WaitGroup
	sem := make(chan struct{}, runtime.NumCPU())
	for i, s := range specs {
		wg.Add(1)
		sem <- struct{}{}
		go func(i int, s string) {
			defer wg.Done()
			defer func() { <-sem }()
			r, ok := histExec(exe, nil, "conc.histerralone", s)
			alloc[i] = -1
			if k := strings.IndexByte(r, ':'); ok && k > 0 {
				if n, err := strconv.Atoi(r[:k]); err == nil {
					if u, err := strconv.Unquote(r[k+1:]); err == nil {
						r, alloc[i] = u, n
					}
				}
			}
			res[i] = r
		}(i, s)
	}
	wg.Wait()
	if f := os.Getenv("VH_HIST_DUMP"); f != "" { // debugging aid: the table of alone results
		var sb strings.Builder
		for i, s := range specs {
			fmt.Fprintf(&sb, "%d\t%s\t%d\t%s\n", i, s, alloc[i], hTrunc(res[i]))
		}
		os.WriteFile(f+".err."+pkg+"."+scale, []byte(sb.String()), 0o644)
	}
	u := &heUniv{}
	for i, s := range specs {
		if alloc[i] < 0 || alloc[i] > heHeavy {
			u.heavy++
			continue
		}
		u.specs, u.alone = append(u.specs, s), append(u.alone, res[i])
	}
	heAloneMemo.Store(key, u)
	return u
}

// heLimitAS bounds the address space of a child (a call that wants more dies, it does not take the machine along).
func heLimitAS() {
	const n = 6 << 30
	syscall.Setrlimit(syscall.RLIMIT_AS, &syscall.Rlimit{Cur: n, Max: n})
}

// heOrder: the history of one run over n calls. perm: as conc.hist. grp: the calls of a group next to each other — a random
// pct% of the groups in random order, the calls of a group in random order with a quarter of them repeated.
func heOrder(specs []string, seed uint64, order string, pct int) []int {
	if order != "grp" {
		return histOrder(len(specs), seed, pct)
	}
	h := &H{rng: seed}
	groups := map[string][]int{}
	var names []string
	for i, s := range specs {
		g := heGroup(s)
		if _, ok := groups[g]; !ok {
			names = append(names, g)
		}
		groups[g] = append(groups[g], i)
	}
	sort.Strings(names)
	shuffle := func(n int, swap func(i, j int)) {
		for i := n - 1; i > 0; i-- {
			swap(i, h.Intn(i+1))
		}
	}
	shuffle(len(names), func(i, j int) { names[i], names[j] = names[j], names[i] })
	var out []int
	for _, g := range names {
		if pct < 100 && h.Intn(100) >= pct {
			continue
		}
		l := append([]int{}, groups[g]...)
		for k := len(l) / 4; k > 0; k-- {
			l = append(l, l[h.Intn(len(l))])
		}
		shuffle(len(l), func(i, j int) { l[i], l[j] = l[j], l[i] })
		out = append(out, l...)
	}
	return out
}

// heRun (child): executes the history and reports every outcome.
func heRun(specs []string, seed uint64, G int, mode, order string, pct int) string {
	ord := heOrder(specs, seed, order, pct)
	res := make([]string, len(ord))
	if G <= 1 {
		for pos, i := range ord {
			res[pos] = heCall(specs[i], false)
		}
	} else {
		rounds := (len(ord) + G - 1) / G
		bar := &hBarrier{n: G}
		bar.c = sync.NewCond(&bar.mu)
		var wg sync.WaitGroup
		for g := 0; g < G; g++ {
			wg.Add(1)
			go func(g int) {
				defer wg.Done()
				bar.wait()
				for r := 0; r < rounds; r++ {
					if mode == "step" && r > 0 {
						bar.wait()
					}
					if pos := r*G + g; pos < len(ord) {
						res[pos] = heCall(specs[ord[pos]], false)
					}
				}
			}(g)
		}
		wg.Wait()
	}
	out := histRunOut{O: ord, R: res, X: []string{}}
	for pos, i := range ord {
		if !strings.HasPrefix(specs[i], "json/") {
			break
		}
		if want := heCall(specs[i], true); !heRefEq(res[pos], want) && len(out.X) < 8 {
			out.X = append(out.X, fmt.Sprintf("%s (call %d of %d): got %s, encoding/json %s", heShow(specs[i]), pos+1, len(ord), hTrunc(res[pos]), hTrunc(want)))
		}
	}
	b, _ := stdjson.Marshal(out)
	return string(b)
}

// heShow: a call for a report: the input of a json call as text, long inputs shortened.
func heShow(spec string) string {
	pkg, member, op, in, ok := heParseSpec(spec)
	if !ok {
		return hTrunc(spec)
	}
	s := hex.EncodeToString(in)
	if pkg == "json" {
		s = strconv.Quote(string(in))
	}
	if len(s) > 200 {
		s = s[:200] + "…"
	}
	return pkg + "/" + member + "/" + op + "(" + s + ")"
}

func init() {
	// conc.histerralone <call>: (fresh process) one call, first in its process
	ops["conc.histerralone"] = func(a []string) (string, string, string) {
		heLimitAS()
		var m0, m1 runtime.MemStats
		runtime.ReadMemStats(&m0)
		r := heCall(a[0], false)
		runtime.ReadMemStats(&m1)
		return strconv.FormatUint(m1.TotalAlloc-m0.TotalAlloc, 10) + ":" + strconv.Quote(r), "-", ""
	}
	// conc.histerrrun <file of calls> <seed> <G> <mode> <order> <pct>: (fresh process) one history
	ops["conc.histerrrun"] = func(a []string) (string, string, string) {
		b, err := os.ReadFile(a[0])
		if err != nil {
			return "no-calls-file", "-", ""
		}
		seed, _ := strconv.ParseUint(a[1], 10, 64)
		heLimitAS()
		return heRun(strings.Split(strings.TrimSpace(string(b)), "\n"), seed, atoi(a[2]), a[3], a[4], atoi(a[5])), "-", ""
	}
	// conc.histerr <pkg> <scale> <seed> <G> <mode> <order> <pct>
	ops["conc.histerr"] = func(a []string) (string, string, string) {
		pkg, scale := a[0], a[1]
		u := hePrepared(pkg, scale)
		specs, alone := u.specs, u.alone
		f, err := os.CreateTemp("", "vh-histerr-*")
		if err != nil {
			return "no-temp-file", "ok", ""
		}
		defer os.Remove(f.Name())
		f.WriteString(strings.Join(specs, "\n") + "\n")
		f.Close()
		exe, _ := os.Executable()
		s, ok := histExec(exe, nil, "conc.histerrrun", f.Name(), a[2], a[3], a[4], a[5], a[6])
		var out histRunOut
		if ok {
			if err := stdjson.Unmarshal([]byte(s), &out); err != nil {
				s, ok = "child-bad-output:"+hTrunc(s), false
			}
		}
		want := "ok:" + strconv.Itoa(len(out.O))
		if !ok {
			return hTrunc(s), "ok", ""
		}
		var bad []string
		nbad := 0
		for pos, i := range out.O {
			if i < 0 || i >= len(specs) || pos >= len(out.R) {
				return "child-bad-output", want, ""
			}
			if out.R[pos] != alone[i] {
				nbad++
				if len(bad) < 3 {
					// the calls on the same Go type that came before: the ones whose leftovers the call can meet
					var before []string
					g := heGroup(specs[i])
					for q := pos - 1; q >= 0 && len(before) < 2; q-- {
						if heGroup(specs[out.O[q]]) == g {
							before = append(before, heShow(specs[out.O[q]])+" = "+hTrunc(out.R[q]))
						}
					}
					bad = append(bad, fmt.Sprintf("%s (call %d of %d): got %s, alone in a fresh process %s; earlier calls on the type, latest first: %s",
						heShow(specs[i]), pos+1, len(out.O), hTrunc(out.R[pos]), hTrunc(alone[i]), strings.Join(before, " < ")))
				}
			}
		}
		if nbad == 0 && len(out.X) == 0 {
			return want, want, ""
		}
		msg := fmt.Sprintf("history-dependent:%d", nbad)
		if len(bad) > 0 {
			msg += " | " + strings.Join(bad, " | ")
		}
		if len(out.X) > 0 {
			msg += " | differs-from-encoding/json:" + strings.Join(out.X[:min(3, len(out.X))], " | ")
		}
		return strings.ReplaceAll(msg, "\x1e", " ; "), want, ""
	}
}

// runC09HistErr: the histories with failing calls. prop = the property that runs them: C09 all three packages, the decode
// properties (C02 json, C07 proto, C08 thrift) a smaller universe of their package.
func runC09HistErr(h *H, prop string) {
	type cfg struct {
		g     int
		mode  string
		order string
		pct   int
	}
	cfgs := []cfg{{1, "seq", "grp", 100}, {1, "seq", "perm", 100}, {4, "step", "grp", 100}, {1, "seq", "grp", 60}, {8, "free", "perm", 100}, {2, "free", "grp", 100}}
	pkgs, scale, n := []string{"json", "proto", "thrift"}, "q", 4
	if h.Thorough() {
		scale, n = "t", 24
	}
	if p, ok := map[string]string{"C02": "json", "C07": "proto", "C08": "thrift"}[prop]; ok {
		pkgs, scale, n = []string{p}, "s", 3
		if h.Thorough() {
			scale, n = "u", 12
		}
	}
	if os.Getenv("VH_TRACE") != "" {
		defer func(t0 time.Time) { fmt.Fprintf(os.Stderr, "runC09HistErr %s: %v\n", prop, time.Since(t0)) }(time.Now())
	}
	for _, pkg := range pkgs {
		for i := 0; i < n; i++ {
			c := cfgs[i%len(cfgs)]
			if i >= len(cfgs) {
				c = cfg{1 + h.Intn(8), []string{"free", "step"}[h.Intn(2)], []string{"grp", "perm"}[h.Intn(2)], []int{100, 75, 50, 25}[h.Intn(4)]}
				if c.g <= 2 {
					c.g, c.mode = 1, "seq"
				}
			}
			h.Do("conc.histerr", pkg, scale, strconv.FormatUint(h.U64()%1000000, 10), strconv.Itoa(c.g), c.mode, c.order, strconv.Itoa(c.pct))
		}
		u := hePrepared(pkg, scale)
		h.Count("histerr_calls:"+pkg, int64(len(u.specs)))
		h.Count("histerr_left_out_heavy:"+pkg, int64(u.heavy))
	}
}
