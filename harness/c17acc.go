package main

// C17 (accessors): json.tokacc / json.tokaccstd — Kind/Bool/Int/Uint/Float/String of json.Tokenizer and the RawValue
// methods against the Lean model (Enc/Model/Json/TokenAcc.lean), the specification (Enc/Spec/Json/TokenVal.lean) and
// encoding/json's Decoder.Token() stream.
//
//	json.tokacc <hex doc>     I = per token `delim/valuehex/kind/class/bool/int/uint/floatlit:64/stringhex/raw5/unquote`, then
//	                          END|ERR. floatlit = hex of the token when Float() has exactly the bits of
//	                          strconv.ParseFloat(string(Value), 64) (error dropped), "MISMATCH:<bits>" otherwise: the Lean
//	                          side prints the literal its model hands to ParseFloat. raw5 = RawValue.String/Null/True/
//	                          False/Number; unquote = "ok:"+hex(Value.AppendUnquote("pfx")) | "panic".
//	json.tokaccstd <hex doc>  (valid documents) I = the value-level stream of the Tokenizer (`:` and `,` dropped), O = the
//	                          stream of encoding/json's Decoder.Token() with UseNumber rendered the same way: D<delim>,
//	                          S<hex string>, B0|B1, N, #<hex literal>:<float bits>:<int64>:<uint64>:<kind> where for the
//	                          oracle the numbers come from strconv on the literal (0 when strconv reports an error).

import (
	"bytes"
	stdjson "encoding/json"
	"fmt"
	"math"
	"strconv"
	"strings"

	"github.com/segmentio/encoding/json"
)

func accUnquote(v json.RawValue) (out string) {
	defer func() {
		if r := recover(); r != nil {
			out = "panic"
		}
	}()
	b := v.AppendUnquote([]byte("pfx"))
	out = "ok:" + hx(b)
	if u := v.Unquote(); !bytes.Equal(append([]byte("pfx"), u...), b) {
		out += "!unquote-differs"
	}
	return
}

func accFloatField(t *json.Tokenizer) string {
	fb := math.Float64bits(t.Float())
	pf, _ := strconv.ParseFloat(string(t.Value), 64)
	if fb == math.Float64bits(pf) {
		return hx(t.Value) + ":64"
	}
	return fmt.Sprintf("MISMATCH:%016x", fb)
}

func tokAccStream(doc []byte) string {
	t := json.NewTokenizer(doc)
	var sb strings.Builder
	n := 0
	for t.Next() {
		if n++; n > len(doc)+5 {
			return sb.String() + "RUNAWAY"
		}
		v := t.Value
		raw := b01(v.String()) + b01(v.Null()) + b01(v.True()) + b01(v.False()) + b01(v.Number())
		val0 := append([]byte{}, v...)
		fmt.Fprintf(&sb, "%d/%s/%d/%d/%s/%d/%d/%s/%s/%s/%s;", t.Delim, hx(v), uint(t.Kind()), uint(t.Kind().Class()), b01(t.Bool()),
			t.Int(), t.Uint(), accFloatField(t), hx(t.String()), raw, accUnquote(v))
		if !bytes.Equal(val0, t.Value) {
			sb.WriteString("!accessor-changed-value;")
		}
	}
	if t.Err != nil {
		sb.WriteString("ERR")
	} else {
		sb.WriteString("END")
	}
	return sb.String()
}

func init() {
	ops["json.tokacc"] = func(a []string) (string, string, string) {
		return tokAccStream(unhx(a[0])), "-", ""
	}
	ops["json.tokaccstd"] = func(a []string) (string, string, string) {
		doc := unhx(a[0])
		if !stdjson.Valid(doc) {
			return "invalid", "-", ""
		}
		var ib, ob strings.Builder
		t := json.NewTokenizer(doc)
		for t.Next() {
			if t.Delim == ',' || t.Delim == ':' {
				continue
			}
			switch k := t.Kind(); {
			case t.Delim != 0:
				fmt.Fprintf(&ib, "D%c;", byte(t.Delim))
			case k.Class() == json.String:
				fmt.Fprintf(&ib, "S%s;", hx(t.String()))
			case k.Class() == json.Bool:
				fmt.Fprintf(&ib, "B%s;", b01(t.Bool()))
			case k == json.Null:
				ib.WriteString("N;")
			case k.Class() == json.Num:
				fmt.Fprintf(&ib, "#%s:%016x:%d:%d:%d;", hx(t.Value), math.Float64bits(t.Float()), t.Int(), t.Uint(), uint(k))
			default:
				fmt.Fprintf(&ib, "?%d;", uint(k))
			}
		}
		if t.Err != nil {
			ib.WriteString("ERR")
		}
		dec := stdjson.NewDecoder(bytes.NewReader(doc))
		dec.UseNumber()
		for {
			tok, err := dec.Token()
			if err != nil {
				break
			}
			switch v := tok.(type) {
			case stdjson.Delim:
				fmt.Fprintf(&ob, "D%c;", byte(v))
			case string:
				fmt.Fprintf(&ob, "S%s;", hx([]byte(v)))
			case bool:
				fmt.Fprintf(&ob, "B%s;", b01(v))
			case nil:
				ob.WriteString("N;")
			case stdjson.Number:
				lit := string(v)
				f, _ := strconv.ParseFloat(lit, 64)
				i, e1 := strconv.ParseInt(lit, 10, 64)
				if e1 != nil {
					i = 0
				}
				u, e2 := strconv.ParseUint(lit, 10, 64)
				if e2 != nil {
					u = 0
				}
				kind := 5
				if strings.ContainsAny(lit, ".eE") {
					kind = 7
				} else if lit[0] == '-' {
					kind = 6
				}
				fmt.Fprintf(&ob, "#%s:%016x:%d:%d:%d;", hx([]byte(lit)), math.Float64bits(f), i, u, kind)
			}
		}
		return ib.String(), ob.String(), ""
	}
}

var tokAccNumbers = []string{"0", "-0", "1", "-1", "7", "10", "1e2", "1E+2", "1e-2", "-1.5", "0.0", "-0.0", "0e0", "-0e-0", "0.1", "3.14159", "100", "1e0",
	"9223372036854775807", "9223372036854775808", "9223372036854775806", "-9223372036854775808", "-9223372036854775809", "-9223372036854775807",
	"18446744073709551615", "18446744073709551616", "18446744073709551614", "99999999999999999999", "100000000000000000000", "10000000000000000000",
	"-18446744073709551615", "-99999999999999999999", "123456789012345678901234567890", "1844674407370955161", "1844674407370955162",
	"922337203685477580", "922337203685477581", "-922337203685477580", "-922337203685477581", "18446744073709551620", "9223372036854775810",
	"1e308", "1e309", "-1e309", "1e-320", "1e-400", "1.7976931348623157e308", "4.9e-324", "2.2250738585072014e-308", "0.000001", "1e21", "1E21",
	"123.456e+7", "1.0", "1.0e1", "5e-1", "12345678.9", "0.30000000000000004", "1e999999", "-1E-999999", "1e19", "1e20", "2e0", "00", "-", "1.", "1e", ".5", "+1", "0x10", "1_0"}

var tokAccStrings = []string{`""`, `"a"`, `"abc def"`, `"\""`, `"\\"`, `"\/"`, `"\b\f\n\r\t"`, `"A"`, `"é"`, `"€"`, `"😀"`, `"\ud800"`, `"\udc00"`,
	`"\ud800\ud800"`, `"\ud800A"`, `"\ud800x"`, `"􏿿"`, `"\ud83d\u"`, `"😀"`, `"\u0000"`, `"\u001f"`, `"~"`, "\"\x7f\"", "\"\x80\"", "\"\xff\xfe\"", "\"é\"",
	"\"\xc3\"", "\"\xe2\x82\"", "\"\xed\xa0\x80\"", "\"\xf0\x9f\x98\x80\"", "\"\xf4\x90\x80\x80\"", "\"\xc0\x80\"", "\"a\xffb\\nc\"", `"12345678"`, `"1234567\""`, `"12345678\""`,
	`"1234567890123456"`, `"123456789012345\\"`, `"12345678901234567"`, `"12345678901234561"`, `"true"`, `"null"`, `"-0"`, `"1e2"`, `"{"`, `":"`, `","`, `"\"`,
	`"""`, `"tab	"`, `"\x"`, `"\u12"`, `"\u12g4"`, "\"\x01\"", `"ends\`, `"\ud800\udc0"`, `"<>&"`, `"  "`, "\" \"", `"\\u0041"`, `"\\\""`}

// genAccDoc: nested document over the pools above; bad = allow syntactically bad scalars
func genAccDoc(h *H, bad bool) []byte {
	num := func() string {
		for {
			s := tokAccNumbers[h.Intn(len(tokAccNumbers))]
			if bad || stdjson.Valid([]byte(s)) {
				return s
			}
		}
	}
	str := func() string {
		for {
			s := tokAccStrings[h.Intn(len(tokAccStrings))]
			if h.Intn(6) == 0 { // random body: printable, escapes, high bytes
				var b []byte
				for k := h.Intn(20); k > 0; k-- {
					switch h.Intn(8) {
					case 0:
						b = append(b, []byte(h.Pick([]string{`\n`, `\"`, `\\`, `é`, `😀`, `\ud800`, `\/`, `\t`}))...)
					case 1:
						b = append(b, byte(0x80+h.Intn(0x80)))
					case 2:
						b = append(b, []byte(h.Pick([]string{"é", "€", "😀", " "}))...)
					default:
						c := byte(0x20 + h.Intn(0x5f))
						if c == '"' || c == '\\' {
							c = 'x'
						}
						b = append(b, c)
					}
				}
				s = `"` + string(b) + `"`
			}
			if bad || stdjson.Valid([]byte(s)) {
				return s
			}
		}
	}
	ws := func() string { return h.Pick([]string{"", "", "", " ", "\n", "\t ", "\r\n"}) }
	var gen func(d int) string
	gen = func(d int) string {
		r := h.Intn(12)
		switch {
		case r < 2 && d < 6:
			n := h.Intn(5)
			parts := make([]string, n)
			for i := range parts {
				parts[i] = ws() + gen(d+1) + ws()
			}
			return "[" + strings.Join(parts, ",") + "]"
		case r < 4 && d < 6:
			n := h.Intn(4)
			parts := make([]string, n)
			for i := range parts {
				parts[i] = ws() + str() + ws() + ":" + ws() + gen(d+1) + ws()
			}
			return "{" + strings.Join(parts, ",") + "}"
		case r < 8:
			return num()
		case r < 11:
			return str()
		default:
			return h.Pick([]string{"true", "false", "null"})
		}
	}
	return []byte(ws() + gen(0) + ws())
}

func genTokAcc(h *H) {
	one := func(d []byte) {
		h.Do("json.tokacc", hx(d))
		if stdjson.Valid(d) {
			h.Do("json.tokaccstd", hx(d))
		}
	}
	for _, s := range tokAccNumbers {
		one([]byte(s))
		one([]byte("[" + s + "]"))
		one([]byte(`{"k":` + s + ` }`))
	}
	for _, s := range tokAccStrings {
		one([]byte(s))
		one([]byte("[" + s + ", 1]"))
		one([]byte("{" + s + ":" + s + "}"))
		one([]byte(" " + s + "\n"))
	}
	for _, s := range []string{"true", "false", "null", " true ", "[true,false,null]", `{"a":true,"b":null}`, "tru", "nul", "fals", "truefalse", "[]", "{}", "[[],{}]",
		`{"a":{"b":[1,-0,"x\ny",{"c":1e2}]}}`, "", " ", "]", ":", ",", "[1,,2]", `{"a" 1}`, "[-0, 0, -0.0, 18446744073709551616, -9223372036854775809]",
		`["é", "é", "e"]`, "[\"a\\", "1 2", "\"a\" \"b\"", "[1e5,1E5,1.5e+5]"} {
		one([]byte(s))
	}
	N := 450
	if h.Thorough() {
		N = 25000
	}
	for i := 0; i < N; i++ {
		d := genAccDoc(h, false)
		one(d)
		if i%3 == 0 {
			one(h.mutateJSON(genAccDoc(h, h.Bool())))
		}
	}
}
