package main

// C01 (struct field layer): json.omitempty — whether a field tagged `omitempty` is written, per field type and value,
// against the Lean model of json/codec.go emptyFuncOf (Enc/Model/Json/OmitEmpty.lean), the stdlib table isEmptyValue
// (Enc/Spec/Json/OmitEmpty.lean) and encoding/json.Marshal.
//
//	json.omitempty <type> <value> <facts>
//
// The op builds `struct{ F T `json:"f,omitempty"` }` for the named type T, stores the described value, marshals the
// struct (by value and through a pointer: both must agree) and reports 0 (field omitted) | 1 (written) | err.
// <facts> = b=.,wz=.,fe=.,fb=.,len=N,pn=.,in=.,ef=. — the value facts the predicates read, computed HERE with plain Go
// (`f == 0`, `math.Float64bits(f) == 0`, `len`, `== nil`), never by /repo; the op recomputes them and refuses
// ("bad-args") a case whose facts are not those of the value.

import (
	stdjson "encoding/json"
	"fmt"
	"math"
	"reflect"
	"strconv"
	"strings"
	"time"

	"github.com/segmentio/encoding/json"
)

type (
	omNInt    int
	omNFloat  float64
	omNString string
	omNBytes  []byte
	omStruct1 struct{ A int }
	omStr     struct{ S string }
)

func (s *omStr) String() string { return "x" }

type omFacts struct {
	b, wz, fe, fb, pn, in, ef bool
	n                         int
}

func (f omFacts) String() string {
	return fmt.Sprintf("b=%s,wz=%s,fe=%s,fb=%s,len=%d,pn=%s,in=%s,ef=%s", b01(f.b), b01(f.wz), b01(f.fe), b01(f.fb), f.n, b01(f.pn), b01(f.in), b01(f.ef))
}

var omIntTypes = map[string]reflect.Type{
	"int": reflect.TypeOf(int(0)), "int8": reflect.TypeOf(int8(0)), "int16": reflect.TypeOf(int16(0)),
	"int32": reflect.TypeOf(int32(0)), "int64": reflect.TypeOf(int64(0)),
	"uint": reflect.TypeOf(uint(0)), "uint8": reflect.TypeOf(uint8(0)), "uint16": reflect.TypeOf(uint16(0)),
	"uint32": reflect.TypeOf(uint32(0)), "uint64": reflect.TypeOf(uint64(0)), "uintptr": reflect.TypeOf(uintptr(0)),
	"nint": reflect.TypeOf(omNInt(0)), "duration": reflect.TypeOf(time.Duration(0)),
}

func omLen(v string) (int, bool, bool) { // (length, isNil, ok)
	if v == "nil" {
		return 0, true, true
	}
	if strings.HasPrefix(v, "n") {
		k, err := strconv.Atoi(v[1:])
		return k, false, err == nil && k >= 0 && k < 100
	}
	return 0, false, false
}

// omBuild: the field value (of the field's static type) and its facts
func omBuild(tname, v string) (val reflect.Value, f omFacts, ok bool) {
	if t, isInt := omIntTypes[tname]; isInt {
		val = reflect.New(t).Elem()
		switch t.Kind() {
		case reflect.Int, reflect.Int8, reflect.Int16, reflect.Int32, reflect.Int64:
			n, err := strconv.ParseInt(v, 10, 64)
			if err != nil {
				return val, f, false
			}
			val.SetInt(reflect.ValueOf(n).Convert(t).Int())
			f.wz = val.Int() == 0
		default:
			n, err := strconv.ParseUint(v, 10, 64)
			if err != nil {
				return val, f, false
			}
			val.SetUint(reflect.ValueOf(n).Convert(t).Uint())
			f.wz = val.Uint() == 0
		}
		return val, f, true
	}
	ip := func(n int) *int { return &n }
	switch tname {
	case "bool":
		f.b = v == "1"
		return reflect.ValueOf(f.b), f, v == "0" || v == "1"
	case "float32":
		bits, err := strconv.ParseUint(v, 16, 32)
		x := math.Float32frombits(uint32(bits))
		f.fe, f.fb = x == 0, math.Float32bits(x) == 0
		f.ef = math.IsNaN(float64(x)) || math.IsInf(float64(x), 0)
		return reflect.ValueOf(x), f, err == nil
	case "float64", "nfloat":
		bits, err := strconv.ParseUint(v, 16, 64)
		x := math.Float64frombits(bits)
		f.fe, f.fb = x == 0, math.Float64bits(x) == 0
		f.ef = math.IsNaN(x) || math.IsInf(x, 0)
		if tname == "nfloat" {
			return reflect.ValueOf(omNFloat(x)), f, err == nil
		}
		return reflect.ValueOf(x), f, err == nil
	case "complex":
		f.ef = true
		if v == "z" {
			return reflect.ValueOf(complex128(0)), f, true
		}
		return reflect.ValueOf(complex(1, 2)), f, v == "v"
	case "string":
		s := string(unhx(v))
		f.n = len(s)
		return reflect.ValueOf(s), f, true
	case "nstring":
		s := string(unhx(v))
		f.n = len(s)
		return reflect.ValueOf(omNString(s)), f, true
	case "number":
		s := string(unhx(v))
		f.n = len(s)
		return reflect.ValueOf(json.Number(s)), f, s == "" || s == "12" || s == "-0" || s == "0"
	case "slice", "sstr", "nbytes", "sany", "bytes", "raw":
		k, isNil, ok := omLen(v)
		f.n = k
		var x any
		switch tname {
		case "slice":
			if isNil {
				x = []int(nil)
			} else {
				x = make([]int, k)
			}
		case "sstr":
			if isNil {
				x = []string(nil)
			} else {
				x = make([]string, k)
			}
		case "sany":
			if isNil {
				x = []any(nil)
			} else {
				x = make([]any, k)
			}
		case "nbytes":
			if isNil {
				x = omNBytes(nil)
			} else {
				x = make(omNBytes, k)
			}
		case "bytes":
			if isNil {
				x = []byte(nil)
			} else {
				x = make([]byte, k, k+3)
			}
		case "raw":
			if isNil {
				x = json.RawMessage(nil)
			} else {
				x = json.RawMessage(strings.Repeat("1", k))
			}
		}
		return reflect.ValueOf(x), f, ok
	case "arr0":
		return reflect.ValueOf([0]int{}), f, v == "z"
	case "arr0e":
		return reflect.ValueOf([0]struct{}{}), f, v == "z"
	case "arr1":
		if v == "z" {
			return reflect.ValueOf([1]int{}), f, true
		}
		return reflect.ValueOf([1]int{7}), f, v == "v"
	case "arr1p":
		if v == "z" {
			return reflect.ValueOf([1]*int{}), f, true
		}
		return reflect.ValueOf([1]*int{ip(0)}), f, v == "v"
	case "arr2s":
		if v == "z" {
			return reflect.ValueOf([2]string{}), f, true
		}
		return reflect.ValueOf([2]string{"", "x"}), f, v == "v"
	case "map", "mapany":
		k, isNil, ok := omLen(v)
		f.n = k
		if tname == "map" {
			var m map[string]int
			if !isNil {
				m = map[string]int{}
				for i := 0; i < k; i++ {
					m["k"+strconv.Itoa(i)] = 0
				}
			}
			return reflect.ValueOf(m), f, ok
		}
		var m map[string]any
		if !isNil {
			m = map[string]any{}
			for i := 0; i < k; i++ {
				m["k"+strconv.Itoa(i)] = nil
			}
		}
		return reflect.ValueOf(m), f, ok
	case "ptr":
		switch v {
		case "nil":
			f.pn = true
			return reflect.ValueOf((*int)(nil)), f, true
		case "z":
			return reflect.ValueOf(ip(0)), f, true
		case "v":
			return reflect.ValueOf(ip(5)), f, true
		}
	case "pstruct":
		switch v {
		case "nil":
			f.pn = true
			return reflect.ValueOf((*struct{})(nil)), f, true
		case "z":
			return reflect.ValueOf(&struct{}{}), f, true
		}
	case "ptime":
		switch v {
		case "nil":
			f.pn = true
			return reflect.ValueOf((*time.Time)(nil)), f, true
		case "z":
			return reflect.ValueOf(&time.Time{}), f, true
		}
	case "pptr":
		switch v {
		case "nil":
			f.pn = true
			return reflect.ValueOf((**int)(nil)), f, true
		case "z":
			var p *int
			return reflect.ValueOf(&p), f, true
		case "v":
			p := ip(0)
			return reflect.ValueOf(&p), f, true
		}
	case "any":
		val = reflect.New(reflect.TypeOf((*any)(nil)).Elem()).Elem()
		var x any
		switch v {
		case "nil":
			f.in = true
			return val, f, true
		case "tnil":
			x = (*int)(nil)
		case "zint":
			x = 0
		case "zstr":
			x = ""
		case "false":
			x = false
		case "zf":
			x = 0.0
		case "negzero":
			x = math.Copysign(0, -1)
		case "nilmap":
			x = map[string]int(nil)
		case "nilslice":
			x = []int(nil)
		case "emptystruct":
			x = struct{}{}
		case "arr0":
			x = [0]int{}
		case "v":
			x = 5
		default:
			return val, f, false
		}
		val.Set(reflect.ValueOf(x))
		return val, f, true
	case "stringer":
		val = reflect.New(reflect.TypeOf((*fmt.Stringer)(nil)).Elem()).Elem()
		switch v {
		case "nil":
			f.in = true
			return val, f, true
		case "tnil":
			val.Set(reflect.ValueOf((*omStr)(nil)))
			return val, f, true
		case "v":
			val.Set(reflect.ValueOf(&omStr{}))
			return val, f, true
		}
	case "struct0":
		return reflect.ValueOf(struct{}{}), f, v == "z"
	case "struct1":
		if v == "z" {
			return reflect.ValueOf(omStruct1{}), f, true
		}
		return reflect.ValueOf(omStruct1{3}), f, v == "v"
	case "time":
		if v == "z" {
			return reflect.ValueOf(time.Time{}), f, true
		}
		return reflect.ValueOf(time.Unix(1700000000, 0).UTC()), f, v == "v"
	case "chan":
		f.ef = true
		if v == "nil" {
			f.pn = true
			return reflect.ValueOf((chan int)(nil)), f, true
		}
		return reflect.ValueOf(make(chan int)), f, v == "v"
	case "func":
		f.ef = true
		if v == "nil" {
			f.pn = true
			return reflect.ValueOf((func())(nil)), f, true
		}
		return reflect.ValueOf(func() {}), f, v == "v"
	}
	return val, f, false
}

func omSeen(b []byte, err error) string {
	if err != nil {
		return "err"
	}
	s := string(b)
	switch {
	case s == "{}":
		return "0"
	case strings.HasPrefix(s, `{"f":`) && strings.HasSuffix(s, "}"):
		return "1"
	}
	return "bad:" + hx(b)
}

func init() {
	ops["json.omitempty"] = func(a []string) (string, string, string) {
		if len(a) != 3 {
			return "bad-args", "-", ""
		}
		val, f, ok := omBuild(a[0], a[1])
		if !ok || f.String() != a[2] {
			return "bad-args", "-", ""
		}
		st := reflect.StructOf([]reflect.StructField{{Name: "F", Type: val.Type(), Tag: `json:"f,omitempty"`}})
		pv := reflect.New(st)
		pv.Elem().Field(0).Set(val)
		i1 := omSeen(json.Marshal(pv.Elem().Interface()))
		i2 := omSeen(json.Marshal(pv.Interface()))
		impl := i1
		if i1 != i2 {
			impl = "mismatch:" + i1 + "/" + i2
		}
		o1 := omSeen(stdjson.Marshal(pv.Elem().Interface()))
		o2 := omSeen(stdjson.Marshal(pv.Interface()))
		oracle := o1
		if o1 != o2 {
			oracle = "mismatch:" + o1 + "/" + o2
		}
		return impl, oracle, ""
	}
}

func genOmitEmpty(h *H) {
	do := func(t, v string) {
		_, f, ok := omBuild(t, v)
		if !ok {
			panic("genOmitEmpty: bad case " + t + " " + v)
		}
		h.Do("json.omitempty", t, v, f.String())
	}
	for _, v := range []string{"0", "1"} {
		do("bool", v)
	}
	for _, t := range []string{"int", "int8", "int16", "int32", "int64", "nint", "duration"} {
		for _, v := range []string{"0", "1", "-1", "256", "65536", "4294967296", "-9223372036854775808", "9223372036854775807", "-128", "127"} {
			do(t, v)
		}
	}
	for _, t := range []string{"uint", "uint8", "uint16", "uint32", "uint64", "uintptr"} {
		for _, v := range []string{"0", "1", "255", "256", "65536", "4294967296", "18446744073709551615", "9223372036854775808", "72057594037927936"} {
			do(t, v)
		}
	}
	f64 := []uint64{0, 0x8000000000000000, 1, 0x8000000000000001, 0x3ff0000000000000, 0xbff0000000000000, 0x7ff8000000000001, 0xfff8000000000000,
		0x7ff0000000000000, 0xfff0000000000000, 0x0010000000000000, 0x7fefffffffffffff, 0x3cb0000000000000}
	for _, b := range f64 {
		do("float64", fmt.Sprintf("%016x", b))
		do("nfloat", fmt.Sprintf("%016x", b))
	}
	for _, b := range []uint32{0, 0x80000000, 1, 0x80000001, 0x3f800000, 0xbf800000, 0x7fc00000, 0xffc00001, 0x7f800000, 0xff800000, 0x00800000} {
		do("float32", fmt.Sprintf("%08x", b))
	}
	for _, t := range []string{"string", "nstring"} {
		for _, s := range []string{"", "a", "\x00", " ", "0", "false", "null"} {
			do(t, hx([]byte(s)))
		}
	}
	for _, s := range []string{"", "12", "0", "-0"} {
		do("number", hx([]byte(s)))
	}
	for _, t := range []string{"slice", "sstr", "nbytes", "sany", "bytes", "raw", "map", "mapany"} {
		for _, v := range []string{"nil", "n0", "n1", "n2", "n5"} {
			do(t, v)
		}
	}
	for _, c := range [][2]string{{"arr0", "z"}, {"arr0e", "z"}, {"arr1", "z"}, {"arr1", "v"}, {"arr1p", "z"}, {"arr1p", "v"}, {"arr2s", "z"}, {"arr2s", "v"},
		{"ptr", "nil"}, {"ptr", "z"}, {"ptr", "v"}, {"pstruct", "nil"}, {"pstruct", "z"}, {"ptime", "nil"}, {"ptime", "z"}, {"pptr", "nil"}, {"pptr", "z"}, {"pptr", "v"},
		{"any", "nil"}, {"any", "tnil"}, {"any", "zint"}, {"any", "zstr"}, {"any", "false"}, {"any", "zf"}, {"any", "negzero"}, {"any", "nilmap"}, {"any", "nilslice"},
		{"any", "emptystruct"}, {"any", "arr0"}, {"any", "v"}, {"stringer", "nil"}, {"stringer", "tnil"}, {"stringer", "v"},
		{"struct0", "z"}, {"struct1", "z"}, {"struct1", "v"}, {"time", "z"}, {"time", "v"},
		{"chan", "nil"}, {"chan", "v"}, {"func", "nil"}, {"func", "v"}, {"complex", "z"}, {"complex", "v"}} {
		do(c[0], c[1])
	}
	// random words and floats of every width
	N := 120
	if h.Thorough() {
		N = 4000
	}
	ints := []string{"int", "int8", "int16", "int32", "int64", "nint", "duration"}
	uints := []string{"uint", "uint8", "uint16", "uint32", "uint64", "uintptr"}
	for i := 0; i < N; i++ {
		u := h.U64() >> uint(h.Intn(64))
		if h.Intn(3) == 0 {
			u <<= uint(8 * (1 + h.Intn(7))) // low bytes zero: conversion to a narrower width gives 0
		}
		switch h.Intn(4) {
		case 0:
			do(h.Pick(ints), strconv.FormatInt(int64(u), 10))
		case 1:
			do(h.Pick(uints), strconv.FormatUint(u, 10))
		case 2:
			do(h.Pick([]string{"float64", "nfloat"}), fmt.Sprintf("%016x", h.U64()&^(uint64(h.Intn(2))*0x7fffffffffffffff)))
		default:
			do("float32", fmt.Sprintf("%08x", uint32(h.U64())&^(uint32(h.Intn(2))*0x7fffffff)))
		}
	}
}
