package main

import (
	"bytes"
	stdjson "encoding/json"
	"fmt"
	"reflect"
	"strconv"
	"strings"

	"github.com/segmentio/encoding/proto"
)

func init() {
	registry["C19"] = runC19
	ops["proto.msgrewrite"] = func(a []string) (string, string, string) {
		rw := buildRw(&toks{t: strings.Fields(a[0])})
		in := unhx(a[1])
		inCopy := append([]byte{}, in...)
		prefix := []byte{0xde, 0xad}
		out, err := rw.Rewrite(append([]byte{}, prefix...), in)
		if err != nil {
			return "err", "-", ""
		}
		if !bytes.Equal(in, inCopy) {
			return "input-modified", "-", ""
		}
		if !bytes.HasPrefix(out, prefix) {
			return "out-prefix-lost", "-", ""
		}
		// applied again with a nil destination: same bytes; the first result is not disturbed by callers writing into
		// the spare capacity of later results
		snap := append([]byte{}, out[len(prefix):]...)
		for k := 0; k < 3; k++ {
			o2, e2 := rw.Rewrite(nil, in)
			if e2 != nil || !bytes.Equal(o2, snap) {
				return "rewriter-not-reusable", "-", ""
			}
			ext := o2[:cap(o2)]
			for i := len(o2); i < len(ext); i++ {
				ext[i] = 0xAA
			}
			if len(o2) > 0 {
				o2[len(o2)-1] ^= 0xFF
			}
		}
		if !bytes.Equal(out[len(prefix):], snap) {
			return "earlier-result-changed", "-", ""
		}
		return "ok:" + hx(out[len(prefix):]), "-", ""
	}
	ops["proto.template"] = opTemplate
	ops["proto.bitor"] = opBitOr
}

type boI64 struct{ A int64 }
type boI32 struct{ A int32 }
type boU64 struct{ A uint64 }
type boU32 struct{ A uint32 }
type boS64 struct {
	A int64 `protobuf:"zigzag64,1,opt,name=A"`
}
type boF64 struct {
	A uint64 `protobuf:"fixed64,1,opt,name=A"`
}

// opBitOr: args kind, value (decimal, as int64 bit pattern), mask (decimal)
func opBitOr(a []string) (string, string, string) {
	val, _ := strconv.ParseInt(a[1], 10, 64)
	mask, _ := strconv.ParseInt(a[2], 10, 64)
	run := func(msg any, tgt any, rules proto.RewriterRules, get func() int64) (string, string, string) {
		tj := []byte(`{"A":` + strconv.FormatInt(mask, 10) + `}`)
		if strings.HasPrefix(a[0], "u") || a[0] == "f64" {
			tj = []byte(`{"A":` + strconv.FormatUint(uint64(mask), 10) + `}`)
		}
		rw, err := proto.ParseRewriteTemplate(proto.TypeOf(reflect.TypeOf(msg)), tj, rules)
		if err != nil {
			return "template-err", "-", ""
		}
		in, _ := proto.Marshal(msg)
		out, err := rw.Rewrite(nil, in)
		if err != nil {
			return "rewrite-err", "-", ""
		}
		if err := proto.Unmarshal(out, tgt); err != nil {
			return "output-invalid", "-", ""
		}
		k := ""
		if a[0] == "s64" || a[0] == "f64" {
			k = "protoBitOrZigzagFixed"
		}
		return strconv.FormatInt(get(), 10), "-", k
	}
	var i, k string
	switch a[0] {
	case "i64":
		t := &boI64{}
		i, _, k = run(boI64{val}, t, proto.RewriterRules{"A": proto.BitOr[int64]{}}, func() int64 { return t.A })
	case "i32":
		t := &boI32{}
		mask = int64(int32(mask))
		i, _, k = run(boI32{int32(val)}, t, proto.RewriterRules{"A": proto.BitOr[int32]{}}, func() int64 { return int64(t.A) })
		val = int64(int32(val))
	case "u64":
		t := &boU64{}
		i, _, k = run(boU64{uint64(val)}, t, proto.RewriterRules{"A": proto.BitOr[uint64]{}}, func() int64 { return int64(t.A) })
	case "u32":
		t := &boU32{}
		mask = int64(uint32(mask))
		i, _, k = run(boU32{uint32(val)}, t, proto.RewriterRules{"A": proto.BitOr[uint32]{}}, func() int64 { return int64(t.A) })
		val = int64(uint32(val))
	case "s64":
		t := &boS64{}
		i, _, k = run(boS64{val}, t, proto.RewriterRules{"A": proto.BitOr[int64]{}}, func() int64 { return t.A })
	case "f64":
		t := &boF64{}
		i, _, k = run(boF64{uint64(val)}, t, proto.RewriterRules{"A": proto.BitOr[uint64]{}}, func() int64 { return int64(t.A) })
	}
	if a[0] == "s64" || a[0] == "f64" {
		k = "protoBitOrZigzagFixed"
	}
	return i, strconv.FormatInt(val|mask, 10), k
}

// buildRw: raw <hex> | multi <n> R*n | msg <k> (<fieldno> R)*k     (emb is only reachable through templates)
func buildRw(p *toks) proto.Rewriter {
	switch p.next() {
	case "raw":
		return proto.RawMessage(unhx(p.next()))
	case "multi":
		n := atoi(p.next())
		var rs []proto.Rewriter
		for i := 0; i < n; i++ {
			rs = append(rs, buildRw(p))
		}
		return proto.MultiRewriter(rs...)
	case "msg":
		k := atoi(p.next())
		type pr struct {
			i int
			r proto.Rewriter
		}
		var ps []pr
		mx := 0
		for i := 0; i < k; i++ {
			idx := atoi(p.next())
			ps = append(ps, pr{idx, buildRw(p)})
			if idx > mx {
				mx = idx
			}
		}
		m := make(proto.MessageRewriter, mx+1)
		for _, q := range ps {
			m[q.i] = q.r
		}
		return m
	}
	panic("bad rewriter spec")
}

// ---- templates: reflect-based oracle -----------------------------------------------------------------

// tmplJSON renders the fields `sel` of value v (of struct type t) as a rewrite template.
func tmplJSON(t *Ty, v reflect.Value, sel func(path string) bool, path string) string {
	st := baseOf(t)
	for v.Kind() == reflect.Ptr {
		if v.IsNil() {
			v = reflect.Zero(v.Type().Elem())
		} else {
			v = v.Elem()
		}
	}
	var parts []string
	for i, f := range st.Fields {
		p := path + "/" + f.Name
		if !sel(p) {
			continue
		}
		parts = append(parts, strconv.Quote(f.Name)+":"+tmplValue(f.T, v.Field(i), sel, p))
	}
	return "{" + strings.Join(parts, ",") + "}"
}

func tmplValue(t *Ty, v reflect.Value, sel func(string) bool, path string) string {
	for v.Kind() == reflect.Ptr {
		if v.IsNil() {
			v = reflect.Zero(v.Type().Elem())
		} else {
			v = v.Elem()
		}
	}
	b := baseOf(t)
	switch {
	case b.K == "st":
		return tmplJSON(b, v, sel, path) // sub-fields are selected by `sel` too (partial sub-templates)
	case t.K == "sl" && !isByteSeq(t):
		var es []string
		for i := 0; i < v.Len(); i++ {
			es = append(es, tmplValue(t.Elem, v.Index(i), sel, path))
		}
		return "[" + strings.Join(es, ",") + "]"
	case b.K == "map":
		var es []string
		it := v.MapRange()
		for it.Next() {
			es = append(es, strconv.Quote(mapKeyText(it.Key()))+":"+tmplValue(b.Elem, it.Value(), sel, path))
		}
		return "{" + strings.Join(es, ",") + "}"
	case isByteSeq(b) || b.K == "str":
		var s string
		if v.Kind() == reflect.String {
			s = v.String()
		} else {
			s = string(v.Bytes())
		}
		j, _ := stdjson.Marshal(s)
		return string(j)
	}
	j, _ := stdjson.Marshal(v.Interface())
	return string(j)
}

// mapKeyText: a map key as the JSON object key of a template
func mapKeyText(k reflect.Value) string {
	switch k.Kind() {
	case reflect.String:
		return k.String()
	case reflect.Bool:
		return strconv.FormatBool(k.Bool())
	case reflect.Int, reflect.Int32, reflect.Int64:
		return strconv.FormatInt(k.Int(), 10)
	default:
		return strconv.FormatUint(k.Uint(), 10)
	}
}

// applyTemplate computes the expected value: fields named by the template are replaced by the template's value.
func applyTemplate(t *Ty, dst, src reflect.Value, sel func(string) bool, path string) {
	st := baseOf(t)
	for i, f := range st.Fields {
		p := path + "/" + f.Name
		if !sel(p) {
			continue
		}
		d, s := dst.Field(i), src.Field(i)
		fb := baseOf(f.T)
		switch {
		case fb.K == "st" && f.T.K != "sl":
			// singular message: its templated sub-fields are replaced, the others keep what the message had (merged over
			// all the occurrences it arrived in)
			for d.Kind() == reflect.Ptr {
				if d.IsNil() {
					d.Set(reflect.New(d.Type().Elem()))
				}
				d = d.Elem()
			}
			for s.Kind() == reflect.Ptr {
				if s.IsNil() {
					s = reflect.Zero(s.Type().Elem())
				} else {
					s = s.Elem()
				}
			}
			applyTemplate(fb, d, s, sel, p)
		case f.T.K == "sl" && baseOf(f.T.Elem).K == "st":
			// repeated message: the list is replaced; every new element has the templated sub-fields only
			n := reflect.MakeSlice(d.Type(), 0, s.Len())
			for k := 0; k < s.Len(); k++ {
				e := reflect.New(d.Type().Elem()).Elem()
				ed, es := e, s.Index(k)
				for ed.Kind() == reflect.Ptr {
					ed.Set(reflect.New(ed.Type().Elem()))
					ed = ed.Elem()
				}
				for es.Kind() == reflect.Ptr {
					es = es.Elem()
				}
				applyTemplate(baseOf(f.T.Elem), ed, es, sel, p)
				n = reflect.Append(n, e)
			}
			d.Set(n)
		default:
			setDeep(d, s)
		}
	}
}

func setDeep(d, s reflect.Value) {
	if d.Kind() == reflect.Ptr {
		if s.IsNil() {
			d.Set(reflect.Zero(d.Type()))
			return
		}
		n := reflect.New(d.Type().Elem())
		n.Elem().Set(s.Elem())
		d.Set(n)
		return
	}
	d.Set(s)
}

// template-friendly message types: scalars, strings, bytes, one level of embedded struct, repeated scalars, string maps
func (h *H) genTmplStruct(depth int) *Ty {
	n := 1 + h.Intn(6)
	t := &Ty{K: "st"}
	tagged := h.Intn(3) == 0
	used := map[int]bool{}
	for i := 0; i < n; i++ {
		var ft *Ty
		switch r := h.Intn(12); {
		case r < 6:
			ft = &Ty{K: []string{"bool", "i32", "i64", "int", "u32", "u64", "uint", "f32", "f64", "str", "bytes"}[h.Intn(11)]}
		case r < 8 && depth == 0:
			ft = h.genTmplStruct(1)
			if h.Bool() {
				ft = &Ty{K: "ptr", Elem: ft}
			}
		case r < 9 && depth == 0 && h.Bool():
			ft = &Ty{K: "sl", Elem: h.genTmplFlat()} // repeated message (scalar fields only)
		case r < 10:
			ft = &Ty{K: "sl", Elem: &Ty{K: []string{"i32", "i64", "u64", "str", "f64", "bool"}[h.Intn(6)]}}
		default:
			ft = &Ty{K: "map", Key: &Ty{K: []string{"str", "str", "i32", "i64", "u64", "u32", "bool"}[h.Intn(7)]},
				Elem: &Ty{K: []string{"i32", "i64", "str", "u64"}[h.Intn(4)]}}
		}
		f := Field{Name: fmt.Sprintf("F%d", i), T: ft}
		if tagged {
			var num int
			for {
				num = []int{1 + h.Intn(20), 1 + h.Intn(20), 255, 256, 257, 300 + h.Intn(700), 4095, 65535}[h.Intn(8)]
				if !used[num] {
					break
				}
			}
			used[num] = true
			wire := "varint"
			b := baseOf(ft)
			rep := "opt"
			if ft.K == "sl" && !isByteSeq(ft) {
				rep = "rep"
				b = baseOf(ft.Elem)
			}
			switch b.K {
			case "str", "bytes", "st", "map":
				wire = "bytes"
			case "f32":
				wire = "fixed32"
			case "f64":
				wire = "fixed64"
			case "u32", "i32":
				if rep == "opt" && ft.K != "ptr" && h.Intn(3) == 0 {
					wire = "fixed32" // fixed32 / sfixed32 (commit d57430f: templates write them with a fixed width)
				}
			case "u64", "i64":
				if rep == "opt" && ft.K != "ptr" && h.Intn(3) == 0 {
					wire = "fixed64"
				}
			}
			if ft.K == "ptr" && (wire == "fixed32" || wire == "fixed64") {
				wire = "varint"
			}
			f.Tag = fmt.Sprintf(`protobuf:"%s,%d,%s,name=%s"`, wire, num, rep, f.Name)
		}
		t.Fields = append(t.Fields, f)
	}
	return t
}

// genTmplFlat: a message of one to four scalar fields, untagged
func (h *H) genTmplFlat() *Ty {
	t := &Ty{K: "st"}
	for i, n := 0, 1+h.Intn(4); i < n; i++ {
		t.Fields = append(t.Fields, Field{Name: fmt.Sprintf("F%d", i),
			T: &Ty{K: []string{"bool", "i32", "i64", "int", "u32", "u64", "f64", "str", "bytes"}[h.Intn(9)]}})
	}
	return t
}

// zeroish values make a template element a no-op inside maps and repeated messages (the original first entry shows
// through): keep map values and repeated elements non-zero in templates
func (h *H) nonZeroCollections(t *Ty, v reflect.Value) {
	st := baseOf(t)
	for v.Kind() == reflect.Ptr {
		if v.IsNil() {
			return
		}
		v = v.Elem()
	}
	for i, f := range st.Fields {
		fv := v.Field(i)
		switch {
		case f.T.K == "map":
			if fv.Len() > 0 {
				m := reflect.MakeMap(fv.Type())
				it := fv.MapRange()
				n := 0
				for it.Next() {
					k, e := it.Key(), it.Value()
					if k.IsZero() || e.IsZero() {
						continue
					}
					if k.Kind() == reflect.String && !stdjson.Valid([]byte(strconv.Quote(k.String()))) {
						continue
					}
					if k.Kind() == reflect.String {
						// keys must survive a JSON round trip unchanged
						var back string
						j, _ := stdjson.Marshal(k.String())
						stdjson.Unmarshal(j, &back)
						if back != k.String() {
							continue
						}
					}
					m.SetMapIndex(k, e)
					n++
				}
				fv.Set(m)
			}
		case baseOf(f.T).K == "st" && f.T.K != "sl":
			h.nonZeroCollections(f.T, fv)
		}
	}
}

func jsonSafeStrings(v reflect.Value) {
	switch v.Kind() {
	case reflect.Float32, reflect.Float64:
		if f := v.Float(); f != f || f > 1e300 || f < -1e300 || (v.Kind() == reflect.Float32 && (f > 3e38 || f < -3e38)) {
			v.SetFloat(1.5) // NaN / Inf have no JSON representation
		}
		if v.Float() == 0 {
			v.SetFloat(0) // -0 is a zero template value: indistinguishable from "no value" by design
		}
	case reflect.String:
		var back string
		j, _ := stdjson.Marshal(v.String())
		stdjson.Unmarshal(j, &back)
		if back != v.String() {
			v.SetString("safe")
		}
	case reflect.Slice:
		if v.Type().Elem().Kind() == reflect.Uint8 {
			var back string
			j, _ := stdjson.Marshal(string(v.Bytes()))
			stdjson.Unmarshal(j, &back)
			if back != string(v.Bytes()) {
				v.SetBytes([]byte("safe"))
			}
			return
		}
		for i := 0; i < v.Len(); i++ {
			jsonSafeStrings(v.Index(i))
		}
	case reflect.Struct:
		for i := 0; i < v.NumField(); i++ {
			jsonSafeStrings(v.Field(i))
		}
	case reflect.Ptr:
		if !v.IsNil() {
			jsonSafeStrings(v.Elem())
		}
	case reflect.Map:
		it := v.MapRange()
		for it.Next() {
			e := reflect.New(v.Type().Elem()).Elem()
			e.Set(it.Value())
			jsonSafeStrings(e)
			v.SetMapIndex(it.Key(), e)
		}
	}
}

// opTemplate: args ty, val (original), val2 (template source), mask of selected top-level fields (decimal bit set)
func opTemplate(a []string) (string, string, string) {
	t := parseTy(a[0])
	v := parseVal(t, a[1])
	v2 := parseVal(t, a[2])
	mask, _ := strconv.ParseUint(a[3], 10, 64)
	submask := ^uint64(0) // optional 5th argument: selection of the sub-fields of templated messages
	split := false        // optional 6th argument "split": singular sub-messages of the input arrive in two occurrences
	if len(a) > 4 {
		submask, _ = strconv.ParseUint(a[4], 10, 64)
	}
	if len(a) > 5 {
		split = a[5] == "split"
	}
	st := baseOf(t)
	sel := func(p string) bool {
		parts := strings.Split(strings.TrimPrefix(p, "/"), "/")
		top := -1
		for i, f := range st.Fields {
			if f.Name == parts[0] {
				top = i
			}
		}
		if top < 0 {
			return false
		}
		if len(parts) == 1 {
			return mask&(1<<uint(top)) != 0
		}
		if len(parts) == 2 {
			sub := baseOfElem(st.Fields[top].T)
			for j, f := range sub.Fields {
				if f.Name == parts[1] {
					return submask&(1<<uint((top*5+j)%64)) != 0
				}
			}
			return false
		}
		return true
	}
	tj := tmplJSON(t, v2, sel, "")
	tmplCopy := []byte(tj)
	rw, err := proto.ParseRewriteTemplate(proto.TypeOf(t.Reflect()), tmplCopy)
	if err != nil {
		return "template-err:" + strings.ReplaceAll(err.Error(), "\t", " "), "ok", ""
	}
	in, err := proto.Marshal(v.Interface())
	if err != nil {
		return "marshal-err", "ok", ""
	}
	if split {
		in = splitSubMessages(t, in)
	}
	inCopy := append([]byte{}, in...)
	out, err := rw.Rewrite(nil, in)
	if err != nil {
		return "rewrite-err", "ok", ""
	}
	if !bytes.Equal(in, inCopy) || string(tmplCopy) != tj {
		return "input-or-template-modified", "ok", ""
	}
	// a rewriter is reusable: applying it again (to this and to another message, into nil and into a spare buffer) gives the
	// same bytes, and outputs already handed out do not change (they share no memory with the template or each other)
	snap := append([]byte{}, out...)
	out2, err2 := rw.Rewrite(nil, in)
	out3, _ := rw.Rewrite(make([]byte, 0, 4*len(in)+64), in)
	other, _ := rw.Rewrite(nil, nil)
	_ = append(other[:len(other):len(other)], 0xAA)
	if cap(out2) > len(out2) {
		ext := out2[:cap(out2)]
		for i := len(out2); i < len(ext); i++ {
			ext[i] = 0xAA // what a caller appending to its result would do
		}
	}
	out4, _ := rw.Rewrite(nil, in)
	if err2 != nil || !bytes.Equal(out2, snap) || !bytes.Equal(out3, snap) || !bytes.Equal(out4, snap) || !bytes.Equal(out, snap) {
		return "rewriter-not-reusable", "ok", ""
	}
	got := reflect.New(t.Reflect())
	if err := proto.Unmarshal(out, got.Interface()); err != nil {
		return "output-invalid", "ok", ""
	}
	want := reflect.New(t.Reflect()).Elem()
	want.Set(v)
	applyTemplate(t, want, v2, sel, "")
	// compare through a re-marshal of the expectation (normalises presence: nil vs pointer-to-default etc.)
	wb, _ := proto.Marshal(want.Interface())
	wantDec := reflect.New(t.Reflect())
	proto.Unmarshal(wb, wantDec.Interface())
	// presence of an all-default embedded message is not representable (known finding proto-ptr-to-empty-encoding):
	// compare modulo nil ≡ pointer-to-default
	nilDefaults(got.Elem())
	nilDefaults(wantDec.Elem())
	g, w := showVal(t, got.Elem(), true), showVal(t, wantDec.Elem(), true)
	if g == w {
		return "ok", "ok", ""
	}
	k := ""
	if zeroElemInRepeated(t, v2, mask) || zeroProjectedElem(t, v2, sel) {
		k = "protoTemplateRepeatedZero"
	}
	return "got:" + g + " want:" + w + " tmpl:" + hx([]byte(tj)), "ok", k
}

// splitSubMessages re-encodes a message so that every singular sub-message with at least two records arrives in two
// occurrences: the first half in place, the second half at the END of the message (after everything else)
func splitSubMessages(t *Ty, b []byte) []byte {
	recs, ok := wireParse(b)
	if !ok {
		return b
	}
	var out, tail []byte
	for _, r := range recs {
		ft := msgFieldType(t, r.num)
		if r.wt == 2 && ft != nil && ft.K != "sl" && ft.K != "map" && baseOf(ft).K == "st" {
			if inner, ok := wireParse(r.val); ok && len(inner) >= 2 {
				cut := len(inner) / 2
				var a, c []byte
				for i, q := range inner {
					if i < cut {
						a = append(a, encRec(q)...)
					} else {
						c = append(c, encRec(q)...)
					}
				}
				out = append(out, encRec(wrec{num: r.num, wt: 2, val: a})...)
				tail = append(tail, encRec(wrec{num: r.num, wt: 2, val: c})...)
				continue
			}
		}
		out = append(out, encRec(r)...)
	}
	return append(out, tail...)
}

// zeroProjectedElem: an element of a selected repeated-message field whose SELECTED sub-fields are all default compiles to
// a rewriter that writes nothing, so the element disappears from the list (same known finding as zero scalars in lists)
func zeroProjectedElem(t *Ty, v reflect.Value, sel func(string) bool) bool {
	st := baseOf(t)
	for v.Kind() == reflect.Ptr {
		if v.IsNil() {
			return false
		}
		v = v.Elem()
	}
	for i, f := range st.Fields {
		p := "/" + f.Name
		if !sel(p) || !(f.T.K == "sl" && baseOf(f.T.Elem).K == "st") {
			continue
		}
		sub := baseOf(f.T.Elem)
		fv := v.Field(i)
		for k := 0; k < fv.Len(); k++ {
			e := fv.Index(k)
			for e.Kind() == reflect.Ptr {
				e = e.Elem()
			}
			all := true
			for j, sf := range sub.Fields {
				if sel(p+"/"+sf.Name) && !isDefaultVal(e.Field(j)) {
					all = false
				}
			}
			if all {
				return true
			}
		}
	}
	return false
}

func isDefaultVal(v reflect.Value) bool {
	switch v.Kind() {
	case reflect.Slice, reflect.Map:
		return v.Len() == 0
	case reflect.Ptr:
		return v.IsNil() || isDefaultVal(v.Elem())
	case reflect.Struct:
		for i := 0; i < v.NumField(); i++ {
			if !isDefaultVal(v.Field(i)) {
				return false
			}
		}
		return true
	}
	return v.IsZero()
}

func nilDefaults(v reflect.Value) {
	switch v.Kind() {
	case reflect.Ptr:
		if v.IsNil() {
			return
		}
		nilDefaults(v.Elem())
		if isDefaultVal(v.Elem()) && v.CanSet() {
			v.Set(reflect.Zero(v.Type()))
		}
	case reflect.Struct:
		for i := 0; i < v.NumField(); i++ {
			nilDefaults(v.Field(i))
		}
	case reflect.Slice:
		if v.Type().Elem().Kind() != reflect.Uint8 {
			for i := 0; i < v.Len(); i++ {
				nilDefaults(v.Index(i))
			}
		}
	}
}

// zeroElemInRepeated: a selected repeated field of the template source holds a zero-valued element (such elements
// compile to no rewriter at all and silently disappear from the list)
func zeroElemInRepeated(t *Ty, v reflect.Value, mask uint64) bool {
	st := baseOf(t)
	for v.Kind() == reflect.Ptr {
		if v.IsNil() {
			return false
		}
		v = v.Elem()
	}
	for i, f := range st.Fields {
		if mask&(1<<uint(i)) == 0 {
			continue
		}
		fv := v.Field(i)
		if f.T.K == "sl" && !isByteSeq(f.T) {
			for j := 0; j < fv.Len(); j++ {
				if fv.Index(j).IsZero() {
					return true
				}
			}
		}
		if baseOf(f.T).K == "st" && f.T.K != "sl" && zeroElemInRepeated(f.T, fv, ^uint64(0)) {
			return true
		}
	}
	return false
}

func runC19(h *H) {
	// (1) MessageRewriter assembled directly: RawMessage leaves, multi, nested; field numbers up to 70000
	N := 1500
	if h.Thorough() {
		N = 30000
	}
	nums := []int{1, 2, 3, 15, 16, 63, 64, 65, 127, 128, 255, 256, 257, 511, 512, 2047, 2048, 4095, 65535, 65536, 70000}
	rec := func(num int) []byte {
		switch h.Intn(4) {
		case 0:
			return proto.AppendVarint(nil, proto.FieldNumber(num), h.U64()>>uint(h.Intn(64)))
		case 1:
			return proto.AppendVarlen(nil, proto.FieldNumber(num), h.Bytes(h.Intn(6)))
		case 2:
			return proto.AppendFixed32(nil, proto.FieldNumber(num), uint32(h.U64()))
		default:
			return proto.AppendFixed64(nil, proto.FieldNumber(num), h.U64())
		}
	}
	for i := 0; i < N; i++ {
		k := 1 + h.Intn(4)
		used := map[int]bool{}
		var spec []string
		var tnums []int
		for j := 0; j < k; j++ {
			n := nums[h.Intn(len(nums))]
			if h.Intn(3) == 0 {
				n = 1 + h.Intn(40)
			}
			if used[n] {
				continue
			}
			used[n] = true
			tnums = append(tnums, n)
			switch h.Intn(4) {
			case 0:
				spec = append(spec, fmt.Sprintf("%d multi 2 raw %s raw %s", n, hx(rec(n)), hx(rec(n))))
			case 1:
				spec = append(spec, fmt.Sprintf("%d multi 0", n))
			default:
				spec = append(spec, fmt.Sprintf("%d raw %s", n, hx(rec(n))))
			}
		}
		rw := fmt.Sprintf("msg %d %s", len(spec), strings.Join(spec, " "))
		// input: templated numbers absent / once / repeated, interleaved with other fields
		var in []byte
		m := h.Intn(8)
		for j := 0; j < m; j++ {
			n := nums[h.Intn(len(nums))]
			if h.Intn(2) == 0 && len(tnums) > 0 {
				n = tnums[h.Intn(len(tnums))]
			}
			if h.Intn(4) == 0 {
				n = 1 + h.Intn(40)
			}
			in = append(in, rec(n)...)
		}
		if h.Intn(10) == 0 {
			in = h.mutate(in)
		}
		im, _ := h.Do("proto.msgrewrite", rw, hx(in))
		if strings.HasPrefix(im, "ok:") {
			h.Do("proto.msgrewrite", rw, hx(in), im[3:])
		}
	}
	// (1b) rewriters compiled from templates, against the model: merged sub-message occurrences, replaced lists and maps,
	// fixed-width integers
	h.tmplRewriteCases()
	// (3) BitOr rules: decoded field = original | mask (0 | mask when absent)
	for i := 0; i < 300; i++ {
		kind := []string{"i64", "i32", "u64", "u32", "s64", "f64"}[h.Intn(6)]
		val := int64(h.U64() >> uint(h.Intn(64)))
		if h.Intn(4) == 0 {
			val = 0
		}
		mask := int64(h.U64() >> uint(1+h.Intn(63)))
		if kind == "i32" || kind == "u32" {
			mask &= 0x7fffffff
			val = int64(int32(val))
		}
		if (kind == "i64" || kind == "i32" || kind == "s64") && h.Intn(3) == 0 {
			val = -val
		}
		h.DoRisky("proto.bitor", kind, strconv.FormatInt(val, 10), strconv.FormatInt(mask, 10))
	}
	// (2) templates against the reflect-based oracle
	M := 600
	if h.Thorough() {
		M = 12000
	}
	for i := 0; i < M; i++ {
		t := h.genTmplStruct(0)
		v := h.genVal(t, 0)
		v2 := h.genVal(t, 0)
		jsonSafeStrings(v2)
		h.nonZeroCollections(t, v2)
		if nilPtrInCollection(v) || nilPtrInCollection(v2) {
			continue
		}
		mask := h.U64() & (1<<uint(len(t.Fields)) - 1)
		switch i % 3 {
		case 0: // whole sub-messages, input as Marshal writes it
			h.DoRisky("proto.template", t.String(), showVal(t, v, false), showVal(t, v2, false), strconv.FormatUint(mask, 10))
		case 1: // partial sub-templates
			h.DoRisky("proto.template", t.String(), showVal(t, v, false), showVal(t, v2, false), strconv.FormatUint(mask, 10),
				strconv.FormatUint(h.U64(), 10), "whole")
		default: // partial sub-templates on an input whose singular sub-messages arrive in two occurrences
			h.DoRisky("proto.template", t.String(), showVal(t, v, false), showVal(t, v2, false), strconv.FormatUint(mask, 10),
				strconv.FormatUint(h.U64(), 10), "split")
		}
	}
	h.tmplValueCases()
}
