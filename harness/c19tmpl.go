package main

import (
	"bytes"
	"fmt"
	"reflect"
	"strconv"
	"strings"

	"github.com/segmentio/encoding/proto"
)

// proto.tmplrewrite <type name> <template json hex> <rewriter text> <input hex> [<impl output hex>]
//
// The rewriter is built by proto.ParseRewriteTemplate from the JSON template; <rewriter text> is the tree the template
// compiles to, in the notation of proto.msgrewrite extended with
//
//	emb <number> <k> (<fieldno> R)*k      embddedRewriter
//	embm <number> <k> (<fieldno> R)*k     embddedRewriter{merge: true}   (singular message field, commit c0f6ba5)
//	repl R                                replacement{R}                 (templated list / map, commit d55a964)
//
// which the Lean driver runs through Model.Proto.rewrite and Spec.Protobuf.specRw. The generator below produces template
// and tree together for a fixed family of message types, and inputs in which the singular sub-message arrives in several
// occurrences, the lists and maps already have elements, and unknown fields sit in between.

type tmSub struct {
	X int32  `protobuf:"varint,1,opt,name=X"`
	Y string `protobuf:"bytes,2,opt,name=Y"`
	Z uint64 `protobuf:"fixed64,3,opt,name=Z"`
}

type tmMsg struct {
	A int32            `protobuf:"varint,1,opt,name=A"`
	S tmSub            `protobuf:"bytes,2,opt,name=S"`
	B string           `protobuf:"bytes,3,opt,name=B"`
	R []tmSub          `protobuf:"bytes,4,rep,name=R"`
	M map[int32]int64  `protobuf:"bytes,5,rep,name=M"`
	P *tmSub           `protobuf:"bytes,6,opt,name=P"`
	F uint32           `protobuf:"fixed32,7,opt,name=F"`
	G int64            `protobuf:"fixed64,8,opt,name=G"`
	N map[string]tmSub `protobuf:"bytes,9,rep,name=N"`
}

func init() {
	ops["proto.tmplrewrite"] = func(a []string) (string, string, string) {
		var typ proto.Type
		switch a[0] {
		case "tmMsg":
			typ = proto.TypeOf(reflect.TypeOf(tmMsg{}))
		default:
			return "badtype", "-", ""
		}
		rw, err := proto.ParseRewriteTemplate(typ, unhx(a[1]))
		if err != nil {
			return "template-err", "-", ""
		}
		in := unhx(a[3])
		inCopy := append([]byte{}, in...)
		out, err := rw.Rewrite(nil, in)
		if err != nil {
			return "err", "-", ""
		}
		if !bytes.Equal(in, inCopy) {
			return "input-modified", "-", ""
		}
		out2, err2 := rw.Rewrite([]byte{0xde, 0xad}, in)
		if err2 != nil || !bytes.Equal(out2[2:], out) {
			return "rewriter-not-reusable", "-", ""
		}
		return "ok:" + hx(out), "-", ""
	}
}

// tmSubTemplate: a template for tmSub naming the fields in `pick` (bit set), JSON object and table entries
func (h *H) tmSubTemplate(pick int, allowZero bool) (json string, ents []string) {
	var js []string
	if pick&1 != 0 {
		v := int32(h.U64() >> uint(33+h.Intn(30)))
		if h.Bool() {
			v = -v
		}
		if v == 0 && !allowZero {
			v = 7
		}
		js = append(js, `"X":`+strconv.Itoa(int(v)))
		if v != 0 {
			ents = append(ents, "1 raw "+hx(proto.AppendVarint(nil, 1, uint64(int64(v)))))
		} else {
			ents = append(ents, "1 multi 0")
		}
	}
	if pick&2 != 0 {
		s := []string{"q", "hello", "", "zz"}[h.Intn(4)]
		if s == "" && !allowZero {
			s = "k"
		}
		js = append(js, `"Y":`+strconv.Quote(s))
		if s != "" {
			ents = append(ents, "2 raw "+hx(proto.AppendVarlen(nil, 2, []byte(s))))
		} else {
			ents = append(ents, "2 multi 0")
		}
	}
	if pick&4 != 0 {
		v := h.U64() >> uint(h.Intn(64))
		if v == 0 && !allowZero {
			v = 9
		}
		js = append(js, `"Z":`+strconv.FormatUint(v, 10))
		if v != 0 {
			ents = append(ents, "3 raw "+hx(proto.AppendFixed64(nil, 3, v)))
		} else {
			ents = append(ents, "3 multi 0")
		}
	}
	return "{" + strings.Join(js, ",") + "}", ents
}

func tmNode(kind string, number int, ents []string) string {
	return fmt.Sprintf("%s %d %d %s", kind, number, len(ents), strings.Join(ents, " "))
}

// multiOf mirrors proto.MultiRewriter: a single rewriter is returned as it is
func multiOf(rs []string) string {
	if len(rs) == 1 {
		return rs[0]
	}
	return fmt.Sprintf("multi %d %s", len(rs), strings.Join(rs, " "))
}

func (h *H) tmTemplate() (json string, tree string) {
	var js, ents []string
	pickTop := 1 + h.Intn(511)
	if h.Intn(3) == 0 {
		pickTop = []int{2, 8, 16, 32, 256, 2 | 32, 8 | 16}[h.Intn(7)]
	}
	if pickTop&1 != 0 { // A
		v := int32(h.Intn(2000) - 1000)
		js = append(js, `"A":`+strconv.Itoa(int(v)))
		if v != 0 {
			ents = append(ents, "1 raw "+hx(proto.AppendVarint(nil, 1, uint64(int64(v)))))
		} else {
			ents = append(ents, "1 multi 0")
		}
	}
	if pickTop&2 != 0 { // S: singular message → merge
		j, e := h.tmSubTemplate(1+h.Intn(7), true)
		js = append(js, `"S":`+j)
		ents = append(ents, "2 "+tmNode("embm", 2, e))
	}
	if pickTop&4 != 0 { // B
		s := []string{"b", "", "bee"}[h.Intn(3)]
		js = append(js, `"B":`+strconv.Quote(s))
		if s != "" {
			ents = append(ents, "3 raw "+hx(proto.AppendVarlen(nil, 3, []byte(s))))
		} else {
			ents = append(ents, "3 multi 0")
		}
	}
	if pickTop&8 != 0 { // R: repeated message → replacement of a multi of plain embedded rewriters
		n := h.Intn(4)
		var jl, rl []string
		for i := 0; i < n; i++ {
			j, e := h.tmSubTemplate(1+h.Intn(7), true)
			jl = append(jl, j)
			rl = append(rl, tmNode("emb", 4, e))
		}
		js = append(js, `"R":[`+strings.Join(jl, ",")+`]`)
		ents = append(ents, "4 repl "+multiOf(rl))
	}
	if pickTop&16 != 0 { // M: map[int32]int64, at most one entry (several entries are written in Go's random map order)
		if h.Intn(4) == 0 {
			js = append(js, `"M":{}`)
			ents = append(ents, "5 repl multi 0")
		} else {
			k, v := int32(h.Intn(50)), int64(h.Intn(1000)-200)
			js = append(js, fmt.Sprintf(`"M":{"%d":%d}`, k, v))
			var e []string
			if k != 0 {
				e = append(e, "1 raw "+hx(proto.AppendVarint(nil, 1, uint64(int64(k)))))
			} else {
				e = append(e, "1 multi 0")
			}
			if v != 0 {
				e = append(e, "2 raw "+hx(proto.AppendVarint(nil, 2, uint64(v))))
			} else {
				e = append(e, "2 multi 0")
			}
			// a single entry: MultiRewriter returns the embddedRewriter itself, which the struct template then marks `merge`
			// (the field is not repeated) before wrapping it in the replacement
			ents = append(ents, "5 repl "+tmNode("embm", 5, e))
		}
	}
	if pickTop&32 != 0 { // P: pointer to message, singular → merge
		j, e := h.tmSubTemplate(1+h.Intn(7), true)
		js = append(js, `"P":`+j)
		ents = append(ents, "6 "+tmNode("embm", 6, e))
	}
	if pickTop&64 != 0 { // F: uint32 tagged fixed32 → fixed-width record (commit d57430f)
		v := uint32(h.U64() >> uint(32+h.Intn(32)))
		js = append(js, `"F":`+strconv.FormatUint(uint64(v), 10))
		if v != 0 {
			ents = append(ents, "7 raw "+hx(proto.AppendFixed32(nil, 7, v)))
		} else {
			ents = append(ents, "7 multi 0")
		}
	}
	if pickTop&128 != 0 { // G: int64 tagged fixed64 → sfixed64, two's complement
		v := int64(h.U64() >> uint(h.Intn(64)))
		if h.Bool() {
			v = -v
		}
		js = append(js, `"G":`+strconv.FormatInt(v, 10))
		if v != 0 {
			ents = append(ents, "8 raw "+hx(proto.AppendFixed64(nil, 8, uint64(v))))
		} else {
			ents = append(ents, "8 multi 0")
		}
	}
	if pickTop&256 != 0 { // N: map[string]tmSub, one entry; the value is a singular message field of the entry → merge
		key := []string{"k", "", "key"}[h.Intn(3)]
		j, e := h.tmSubTemplate(1+h.Intn(7), true)
		js = append(js, fmt.Sprintf(`"N":{%s:%s}`, strconv.Quote(key), j))
		var ee []string
		if key != "" {
			ee = append(ee, "1 raw "+hx(proto.AppendVarlen(nil, 1, []byte(key))))
		} else {
			ee = append(ee, "1 multi 0")
		}
		ee = append(ee, "2 "+tmNode("embm", 2, e))
		ents = append(ents, "9 repl "+tmNode("embm", 9, ee))
	}
	return "{" + strings.Join(js, ",") + "}", fmt.Sprintf("msg %d %s", len(ents), strings.Join(ents, " "))
}

func (h *H) tmSubVal() tmSub {
	s := tmSub{}
	if h.Bool() {
		s.X = int32(h.Intn(100) - 50)
	}
	if h.Bool() {
		s.Y = []string{"old", "y", "older"}[h.Intn(3)]
	}
	if h.Bool() {
		s.Z = h.U64() >> uint(h.Intn(64))
	}
	return s
}

// tmInput: an encoding of a tmMsg in which S and P arrive in up to three occurrences spread over the message, with
// unknown fields in between
func (h *H) tmInput() []byte {
	var recs [][]byte
	add := func(b []byte) { recs = append(recs, b) }
	if h.Bool() {
		add(proto.AppendVarint(nil, 1, uint64(h.Intn(100))))
	}
	piece := func(num proto.FieldNumber) {
		s := h.tmSubVal()
		var body []byte
		// each piece carries a subset of the fields, possibly empty
		if s.X != 0 {
			body = proto.AppendVarint(body, 1, uint64(int64(s.X)))
		}
		if s.Y != "" {
			body = proto.AppendVarlen(body, 2, []byte(s.Y))
		}
		if s.Z != 0 {
			body = proto.AppendFixed64(body, 3, s.Z)
		}
		if h.Intn(6) == 0 {
			body = proto.AppendVarint(body, 11, 5) // a field tmSub does not declare
		}
		add(proto.AppendVarlen(nil, num, body))
	}
	for i, n := 0, h.Intn(4); i < n; i++ {
		piece(2)
	}
	if h.Bool() {
		add(proto.AppendVarlen(nil, 3, []byte("bold")))
	}
	for i, n := 0, h.Intn(3); i < n; i++ {
		piece(4)
	}
	for i, n := 0, h.Intn(3); i < n; i++ {
		piece(6)
	}
	if h.Bool() {
		e := proto.AppendVarint(proto.AppendVarint(nil, 1, uint64(1+h.Intn(9))), 2, uint64(h.Intn(90)))
		add(proto.AppendVarlen(nil, 5, e))
	}
	if h.Bool() {
		add(proto.AppendFixed32(nil, 7, uint32(h.U64())))
	}
	if h.Bool() {
		add(proto.AppendFixed64(nil, 8, h.U64()))
	}
	if h.Bool() {
		v := proto.AppendVarint(nil, 1, 3)
		e := proto.AppendVarlen(proto.AppendVarlen(nil, 1, []byte("k")), 2, v)
		if h.Bool() { // the value of the entry in two pieces
			e = proto.AppendVarlen(e, 2, proto.AppendVarlen(nil, 2, []byte("w")))
		}
		add(proto.AppendVarlen(nil, 9, e))
	}
	for i, n := 0, h.Intn(3); i < n; i++ {
		add(h.genUnknownRecord(&Ty{K: "st"}, 0)[:]) // numbers may coincide with declared ones: fine for the rewriter
	}
	// shuffle, then possibly a wrong wire type for a templated number (varint under field 2)
	for i := len(recs) - 1; i > 0; i-- {
		j := h.Intn(i + 1)
		recs[i], recs[j] = recs[j], recs[i]
	}
	if h.Intn(8) == 0 {
		recs = append(recs, proto.AppendVarint(nil, 2, 77))
	}
	var out []byte
	for _, r := range recs {
		out = append(out, r...)
	}
	if h.Intn(12) == 0 {
		out = h.mutate(out)
	}
	return out
}

func (h *H) tmplRewriteCases() {
	N := 400
	if h.Thorough() {
		N = 8000
	}
	for i := 0; i < N; i++ {
		tj, tree := h.tmTemplate()
		in := h.tmInput()
		im, _ := h.Do("proto.tmplrewrite", "tmMsg", hx([]byte(tj)), tree, hx(in))
		if strings.HasPrefix(im, "ok:") {
			h.Do("proto.tmplrewrite", "tmMsg", hx([]byte(tj)), tree, hx(in), im[3:])
		}
	}
}
