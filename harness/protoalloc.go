package main

// C07, allocation clause: "memory allocated stays within a constant factor of the input length".
//
// op proto.allocm <type> <hex> <measured>
//
//	I (this file)  = sz=<reflect size>;csz=<same>;K=<K>;K0=<K0>;<verdict>, verdict "ok" when the TotalAlloc delta of
//	                 proto.Unmarshal on the real code is ≤ 1.5·(K·len+K0)+512, else the numbers. K, K0 are the constants
//	                 of the theorem Props.C07.alloc_bound, recomputed here from reflect.Type (layout from the Go runtime).
//	O              = the same with verdict "ok" (the property).
//	M (Lean driver, Enc/Driver/Proto.lean) = sz/csz/K/K0 from the model's layout function and the model's own allocation
//	                 count `alloc` for the same type and bytes: verdict "ok" when alloc ≤ K·len+K0 AND <measured> ≤ 1.5·alloc+512
//	                 (<measured> is the third argument: the number measured when the case was generated), else
//	                 "model=…>bound=…" resp. "meas=…>1.5*model=…+512" — a drift of the implementation above the model
//	                 and a model above its proved bound are distinct observables.
//
// The measurement runs in the supervised worker (a decoder that reserved memory from a declared length would kill it).

import (
	"fmt"
	"reflect"
	"runtime"
	"strconv"

	"github.com/segmentio/encoding/proto"
)

func init() {
	ops["proto.allocm"] = opAllocM
	ops["proto.allocmeas"] = opAllocMeas
}

const (
	amErrWrap = 32 // unsafe.Sizeof(proto.UnmarshalFieldError{})
	amFmtErr  = 64 // nominal charge for one fmt.Errorf (Model.Proto.fmtErr)
)

var protoMessageIface = reflect.TypeOf((*proto.Message)(nil)).Elem()

func amMax(a, b uint64) uint64 {
	if a > b {
		return a
	}
	return b
}

// amType mirrors Codec.K / Codec.K1 of Enc/Model/ProtoAlloc.lean on the codec proto.codecOf builds for t.
func amType(t reflect.Type) (K, K1 uint64) {
	if t.Implements(protoMessageIface) || reflect.PointerTo(t).Implements(protoMessageIface) {
		return 1, 0
	}
	switch t.Kind() {
	case reflect.Int32, reflect.Uint32:
		return 0, amFmtErr
	case reflect.String:
		return 1, 0
	case reflect.Slice:
		if t.Elem().Kind() == reflect.Uint8 {
			return 2, 0
		}
	case reflect.Array:
		if t.Elem().Kind() == reflect.Uint8 {
			return 0, amFmtErr
		}
	case reflect.Ptr:
		k, k1 := amType(t.Elem())
		return k, k1 + uint64(t.Elem().Size())
	case reflect.Struct:
		var k uint64
		for i := 0; i < t.NumField(); i++ {
			fk, fk1 := amField(t.Field(i).Type)
			k = amMax(k, amMax(fk, fk1))
		}
		return k, amErrWrap + amFmtErr
	}
	return 0, 0
}

// amField mirrors fieldCodecOf: repeated fields and maps exist only as struct fields.
func amField(t reflect.Type) (K, K1 uint64) {
	if t.Implements(protoMessageIface) || reflect.PointerTo(t).Implements(protoMessageIface) {
		return 1, 0
	}
	switch t.Kind() {
	case reflect.Slice:
		if t.Elem().Kind() != reflect.Uint8 {
			k, k1 := amType(t.Elem())
			return k, k1 + 14*uint64(t.Elem().Size())
		}
	case reflect.Map:
		entry := reflect.StructOf([]reflect.StructField{{Name: "Key", Type: t.Key()}, {Name: "Elem", Type: t.Elem()}})
		k, k1 := amType(entry)
		es := uint64(entry.Size())
		bucket := 8*es + 16
		return k, k1 + (48 + 2*bucket) + es + bucket
	}
	return amType(t)
}

func amConsts(t reflect.Type) (sz, K, K0 uint64) {
	k, k1 := amType(t)
	sz = uint64(t.Size())
	return sz, k, k1 + amFmtErr + sz
}

// amMeasure: bytes allocated by one proto.Unmarshal into a fresh zero target (minimum of three runs after a warm-up that
// builds the codec and the per-codec pools).
func amMeasure(t *Ty, b []byte) uint64 {
	rt := t.Reflect()
	proto.Unmarshal(b, reflect.New(rt).Interface())
	best := ^uint64(0)
	var m0, m1 runtime.MemStats
	for k := 0; k < 3; k++ {
		x := reflect.New(rt).Interface()
		runtime.ReadMemStats(&m0)
		proto.Unmarshal(b, x)
		runtime.ReadMemStats(&m1)
		// the target itself (reflect.New above) is allocated before m0
		if d := m1.TotalAlloc - m0.TotalAlloc; d < best {
			best = d
		}
		runtime.KeepAlive(x)
	}
	return best
}

func amVerdict(t *Ty, b []byte, meas uint64) (string, string) {
	sz, K, K0 := amConsts(t.Reflect())
	pre := fmt.Sprintf("sz=%d;csz=%d;K=%d;K0=%d;", sz, sz, K, K0)
	bound := K*uint64(len(b)) + K0
	if 2*meas <= 3*bound+1024 {
		return pre + "ok", pre + "ok"
	}
	return pre + fmt.Sprintf("alloc=%d>bound=%d", meas, bound), pre + "ok"
}

// opAllocMeas: args type, hex → the measured number (worker side of a generated case).
func opAllocMeas(a []string) (string, string, string) {
	return strconv.FormatUint(amMeasure(parseTy(a[0]), unhx(a[1])), 10), "-", ""
}

// opAllocM: args type, hex, measured-at-generation (ignored here: the op measures again; the driver reads it).
func opAllocM(a []string) (string, string, string) {
	t := parseTy(a[0])
	b := unhx(a[1])
	i, o := amVerdict(t, b, amMeasure(t, b))
	return i, o, ""
}

// allocm runs the measurement in the supervised worker and emits the case with the measured number as third argument.
func (h *H) allocm(ts string, b []byte) {
	if h.w == nil {
		h.w = &worker{}
	}
	ms, _, _ := h.w.run("proto.allocmeas", []string{ts, hx(b)})
	meas, err := strconv.ParseUint(ms, 10, 64)
	h.Count("cases", 1)
	h.Count("op:proto.allocm", 1)
	t := parseTy(ts)
	if err != nil { // fatal:… — the worker died (memory limit, timeout): an observable of its own
		_, o := amVerdict(t, b, 0)
		h.emit("C", "proto.allocm", []string{ts, hx(b), "0"}, ms, o, "")
		return
	}
	i, o := amVerdict(t, b, meas)
	h.emit("C", "proto.allocm", []string{ts, hx(b), ms}, i, o, "")
}

// amFill builds a value whose repeated fields hold n zero elements and whose maps hold n distinct keys (zero elements
// and values encode to the shortest records: the most allocation per input byte).
func (h *H) amFill(v reflect.Value, n, depth int) {
	switch v.Kind() {
	case reflect.Ptr:
		if depth > 4 {
			return
		}
		v.Set(reflect.New(v.Type().Elem()))
		h.amFill(v.Elem(), n, depth+1)
	case reflect.Struct:
		for i := 0; i < v.NumField(); i++ {
			if v.Field(i).CanSet() {
				h.amFill(v.Field(i), n, depth+1)
			}
		}
	case reflect.Slice:
		if v.Type().Elem().Kind() == reflect.Uint8 {
			return
		}
		s := reflect.MakeSlice(v.Type(), n, n)
		if depth < 3 {
			for i := 0; i < n && i < 3; i++ {
				h.amFill(s.Index(i), 1+n/8, depth+2)
			}
		}
		v.Set(s)
	case reflect.Map:
		m := reflect.MakeMap(v.Type())
		for i := 0; i < n; i++ {
			k := reflect.New(v.Type().Key()).Elem()
			switch k.Kind() {
			case reflect.String:
				k.SetString(strconv.Itoa(i))
			case reflect.Bool:
				k.SetBool(i%2 == 1)
			case reflect.Int, reflect.Int32, reflect.Int64:
				k.SetInt(int64(i))
			case reflect.Uint, reflect.Uint32, reflect.Uint64:
				k.SetUint(uint64(i))
			}
			e := reflect.New(v.Type().Elem()).Elem()
			if depth < 3 && i < 2 {
				h.amFill(e, 1+n/8, depth+2)
			}
			m.SetMapIndex(k, e)
		}
		v.Set(m)
	}
}

// amChain: `depth` messages nested through field 1, `kind` = "ptr" (optional message) or "sl" (repeated message).
func amChain(kind string, depth int) string {
	s := "st 0"
	for i := 0; i < depth; i++ {
		s = "st 2 f N - 0 " + kind + " " + s + " f V - 0 i32"
	}
	return s
}

func amNest(depth int, inner []byte) []byte {
	b := inner
	for i := 0; i < depth; i++ {
		b = append(append([]byte{0x0a}, putUvarint(uint64(len(b)), 0)...), b...)
	}
	return b
}

func amRepeat(rec []byte, n int) []byte {
	var b []byte
	for i := 0; i < n; i++ {
		b = append(b, rec...)
	}
	return b
}

// protoAllocCases: hooked at the end of the C07 runner.
func (h *H) protoAllocCases() {
	counts := []int{0, 1, 2, 9, 10, 11, 20, 21, 40, 41, 100, 333}
	if h.Thorough() {
		counts = append(counts, 1000, 2500)
	}
	// 1. type-directed: valid encodings of generated values, of values stuffed with zero elements, and mutations of both
	N := 120
	if h.Thorough() {
		N = 1500
	}
	for i := 0; i < N; i++ {
		t, val := h.genProtoCase()
		ts := t.String()
		v := parseVal(t, val)
		if b, err := proto.Marshal(v.Interface()); err == nil {
			h.allocm(ts, b)
			h.allocm(ts, h.mutate(b))
			if len(b) > 0 {
				h.allocm(ts, b[:h.Intn(len(b))])
			}
		}
		n := counts[h.Intn(len(counts))]
		fv := reflect.New(t.Reflect())
		h.amFill(fv.Elem(), n, 0)
		if b, err := proto.Marshal(fv.Interface()); err == nil && len(b) < 60000 {
			h.allocm(ts, b)
			h.allocm(ts, h.mutate(b))
			if len(b) > 0 {
				h.allocm(ts, b[:h.Intn(len(b))])
			}
		}
	}
	// 2. directed shapes
	wide := "st 6 f A - 0 sl st 0 f B - 0 sl i32 f C - 0 map i32 st 1 f X - 0 sl str f D - 0 sl ptr st 2 f P - 0 i64 f Q - 0 sl bytes" +
		" f E - 0 map str bytes f F - 0 sl st 3 f R - 0 arr 4 u8 f S - 0 named RawMessage bytes f T - 0 ptr ptr u32"
	for _, n := range counts {
		h.allocm(wide, amRepeat([]byte{0x0a, 0x00}, n))                         // n empty messages: 2 bytes each
		h.allocm(wide, amRepeat([]byte{0x10, 0x00}, n))                         // n zero varints
		h.allocm(wide, amRepeat([]byte{0x1a, 0x00}, n))                         // n empty map entries (one key)
		h.allocm(wide, amRepeat([]byte{0x22, 0x00}, n))                         // n pointers to empty messages
		h.allocm(wide, amRepeat([]byte{0x22, 0x02, 0x12, 0x00}, n))             // each with one empty []byte element
		h.allocm(wide, amRepeat([]byte{0x2a, 0x00}, n))                         // n empty entries of map[string][]byte
		h.allocm(wide, amRepeat([]byte{0x32, 0x00}, n))                         // n elements of a 56-byte struct
		h.allocm(wide, amRepeat([]byte{0x32, 0x04, 0x1a, 0x02, 0x08, 0x01}, n)) // … each allocating a pointer chain
		var dk []byte                                                           // n distinct map keys
		for i := 0; i < n; i++ {
			dk = append(dk, 0x1a)
			e := append([]byte{0x08}, putUvarint(uint64(i), 0)...)
			dk = append(append(dk, byte(len(e))), e...)
		}
		h.allocm(wide, dk)
		h.allocm(wide, amRepeat([]byte{0x0a, 0x00, 0x10, 0x01, 0x1a, 0x00, 0x22, 0x00, 0x2a, 0x00, 0x32, 0x00}, n))
	}
	for _, kind := range []string{"ptr", "sl"} {
		for _, d := range []int{1, 2, 5, 12, 30} {
			ts := amChain(kind, d)
			for _, k := range []int{0, 1, d - 1, d, d + 1} {
				if k < 0 {
					continue
				}
				h.allocm(ts, amNest(k, nil))
				h.allocm(ts, amNest(k, []byte{0x10, 0x01}))
				h.allocm(ts, amNest(k, []byte{0x10})) // error at the innermost level: one fieldError per level
				h.allocm(ts, amNest(k, []byte{0x15, 1, 2, 3, 4}))
			}
			h.allocm(ts, amRepeat(amNest(d, nil), 25))
		}
	}
	// 3. huge declared lengths with short input, ten-byte varints, random bytes
	shapes := []string{
		wide,
		"st 3 f A - 0 i32 f B - 0 sl str f C - 0 map str i64",
		"st 2 f A - 0 ptr st 1 f X - 0 bytes f B - 0 sl ptr st 1 f Y - 0 u64",
		"st 2 f A - 0 arr 4 u8 f B - 0 named RawMessage bytes",
		"named RawMessage bytes",
		"st 3 f A - 0 str f B - 0 bytes f C - 0 sl bytes",
	}
	M := 250
	if h.Thorough() {
		M = 4000
	}
	for i := 0; i < M; i++ {
		ts := shapes[h.Intn(len(shapes))]
		var b []byte
		switch h.Intn(5) {
		case 0:
			b = h.Bytes(h.Intn(40))
		case 1: // huge declared length, short input
			b = append([]byte{byte((1+h.Intn(6))<<3 | 2)}, putUvarint(h.U64()>>uint(h.Intn(40)), 0)...)
			b = append(b, h.Bytes(h.Intn(6))...)
		case 2: // long varints
			b = append([]byte{byte((1+h.Intn(6))<<3 | 0)}, amRepeat([]byte{0xff}, 8+h.Intn(5))...)
			b = append(b, byte(h.Intn(4)))
		case 3: // a long string / bytes payload, twice (the second decode reuses or regrows the buffer)
			n := 1 + h.Intn(3000)
			p := h.Bytes(n)
			num := byte(1 + h.Intn(3))
			r1 := append(append([]byte{num<<3 | 2}, putUvarint(uint64(n), 0)...), p...)
			m := h.Intn(n + 1)
			r2 := append(append([]byte{num<<3 | 2}, putUvarint(uint64(m), 0)...), p[:m]...)
			if h.Bool() {
				b = append(r1, r2...)
			} else {
				b = append(r2, r1...)
			}
		default:
			n := 1 + h.Intn(10)
			for j := 0; j < n; j++ {
				b = append(b, h.genUnknownRecord(&Ty{K: "st"}, 0)...)
			}
			b = h.mutate(b)
		}
		h.allocm(ts, b)
	}
}
