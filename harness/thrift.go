package main

import (
	"bytes"
	"errors"
	"fmt"
	"io"
	"reflect"
	"runtime"
	"strconv"
	"strings"

	"github.com/segmentio/encoding/thrift"
)

func init() {
	oversize := func(i int) func([]string) string {
		return func(a []string) string {
			if len(a) > i && declaresOversize(unhx(a[i])) {
				return "thriftWireSizeAlloc"
			}
			return ""
		}
	}
	fatalClass["thrift.decode"] = oversize(3)
	fatalClass["thrift.alloc"] = oversize(2)
	registry["C04"] = runC04
	registry["C08"] = runC08
	registry["C13"] = runC13

	ops["thrift.marshal"] = func(a []string) (string, string, string) {
		p := thriftProto(a[0])
		t := parseTy(a[1])
		v := parseVal(t, a[2])
		b, err := thrift.Marshal(p, v.Interface())
		if err != nil {
			return "err", "-", ""
		}
		return "ok:" + hx(b), "-", ""
	}
	ops["thrift.marshalx"] = ops["thrift.marshal"]
	ops["thrift.roundtrip"] = func(a []string) (string, string, string) {
		p := thriftProto(a[0])
		t := parseTy(a[1])
		v := parseVal(t, a[2])
		b, err := thrift.Marshal(p, v.Interface())
		if err != nil {
			return "marshal-err", "ok:" + showVal(t, v, true), ""
		}
		return thriftDecode(p, false, t, b), "ok:" + showVal(t, v, true), ""
	}
	ops["thrift.decode"] = func(a []string) (string, string, string) {
		o := "-"
		if len(a) > 4 {
			o = a[4]
		}
		in := unhx(a[3])
		i := thriftDecode(thriftProto(a[0]), a[1] == "1", parseTy(a[2]), in)
		if o == "-" && i == "err:eof" && len(in) > 0 {
			// the property's own rule: plain io.EOF is the answer for EMPTY input only; input that ends inside a value is an
			// unexpected EOF
			o = "err:unexpectedEof"
		}
		return i, o, ""
	}
	// reuse: an Encoder/Decoder that served another protocol before, then Reset, behaves like a fresh one
	ops["thrift.reset"] = func(a []string) (string, string, string) {
		p1, p2 := thriftProto(a[0]), thriftProto(a[1])
		t := parseTy(a[2])
		v := parseVal(t, a[3])
		fresh, err := thrift.Marshal(p2, v.Interface())
		if err != nil {
			return "marshal-err", "-", ""
		}
		var b1, b2 bytes.Buffer
		enc := thrift.NewEncoder(p1.NewWriter(&b1))
		enc.Encode(v.Interface())
		enc.Reset(p2.NewWriter(&b2))
		if err := enc.Encode(v.Interface()); err != nil {
			return "reset-encode-err", "same", ""
		}
		res := "same"
		if !hasMultiMap(t, v) && !bytes.Equal(b2.Bytes(), fresh) {
			res = "enc-differs:" + hx(b2.Bytes())
		}
		// decoder: first decode a p1 stream, then Reset onto the p2 stream
		tgt1 := reflect.New(t.Reflect())
		dec := thrift.NewDecoder(p1.NewReader(bytes.NewReader(b1.Bytes())))
		dec.Decode(tgt1.Interface())
		tgt2 := reflect.New(t.Reflect())
		dec.Reset(p2.NewReader(bytes.NewReader(fresh)))
		err = dec.Decode(tgt2.Interface())
		want := thriftDecode(p2, false, t, fresh)
		got := "err:other"
		if err == nil {
			got = "ok:" + showVal(t, tgt2.Elem(), true)
		}
		if strings.HasPrefix(want, "ok:") && got != want {
			res += ";dec-differs"
		}
		return res, "same", ""
	}
	// the two protocols decode each other's logical content to the same value
	ops["thrift.cross"] = func(a []string) (string, string, string) {
		t := parseTy(a[0])
		v := parseVal(t, a[1])
		var outs []string
		for _, pn := range []string{"bs", "bn", "c"} {
			p := thriftProto(pn)
			b, err := thrift.Marshal(p, v.Interface())
			if err != nil {
				return "marshal-err", "equal", ""
			}
			outs = append(outs, thriftDecode(p, false, t, b))
		}
		if outs[0] == outs[1] && outs[1] == outs[2] {
			return "equal", "equal", ""
		}
		return "differ:" + strings.Join(outs, " | "), "equal", ""
	}
	ops["thrift.message"] = func(a []string) (string, string, string) {
		p := thriftProto(a[0])
		var buf bytes.Buffer
		w := p.NewWriter(&buf)
		seq, _ := strconv.ParseInt(a[3], 10, 32)
		err := w.WriteMessage(thrift.Message{Type: thrift.MessageType(atoi(a[1])), Name: string(unhx(a[2])), SeqID: int32(seq)})
		if err != nil {
			return "err", "-", ""
		}
		// and read it back
		m, err := p.NewReader(bytes.NewReader(buf.Bytes())).ReadMessage()
		if err != nil || int(m.Type) != atoi(a[1]) || m.Name != string(unhx(a[2])) || int64(m.SeqID) != seq {
			return hx(buf.Bytes()) + ";readback-differs", "-", ""
		}
		return hx(buf.Bytes()), "-", ""
	}
	// ReadMessage on arbitrary bytes: `ok:<type&7> <namehex> <seq id> <unread bytes>` or the error class; optional oracle
	ops["thrift.readmessage"] = func(a []string) (string, string, string) {
		o := "-"
		if len(a) > 2 {
			o = a[2]
		}
		br := bytes.NewReader(unhx(a[1]))
		m, err := thriftProto(a[0]).NewReader(br).ReadMessage()
		if err != nil {
			return thriftErrClass(err), o, ""
		}
		return fmt.Sprintf("ok:%d %s %d %d", int(m.Type), hx([]byte(m.Name)), m.SeqID, br.Len()), o, ""
	}
	// Writer.WriteField(Field{ID, Type, Delta}) alone; oracle (compact only): the specification's two header forms
	ops["thrift.wfield"] = func(a []string) (string, string, string) {
		var buf bytes.Buffer
		id, _ := strconv.ParseInt(a[2], 10, 16)
		tc := atoi(a[1])
		delta := a[3] == "1"
		if err := thriftProto(a[0]).NewWriter(&buf).WriteField(thrift.Field{ID: int16(id), Type: thrift.Type(tc), Delta: delta}); err != nil {
			return "err", "-", ""
		}
		o := "-"
		if a[0] == "c" {
			switch {
			case tc == 0:
				o = "00"
			case delta && id > 0 && id <= 15:
				o = hx([]byte{byte(id)<<4 | byte(tc)})
			default:
				o = hx(append([]byte{byte(tc)}, putUvarint(uint64((id<<1)^(id>>63)), 0)...))
			}
		}
		return hx(buf.Bytes()), o, ""
	}
	ops["thrift.alloc"] = func(a []string) (string, string, string) {
		p := thriftProto(a[0])
		t := parseTy(a[1])
		b := unhx(a[2])
		tgt := reflect.New(t.Reflect())
		thrift.Unmarshal(p, b, tgt.Interface())
		tgt = reflect.New(t.Reflect())
		var m0, m1 runtime.MemStats
		runtime.ReadMemStats(&m0)
		thrift.Unmarshal(p, b, tgt.Interface())
		runtime.ReadMemStats(&m1)
		alloc := m1.TotalAlloc - m0.TotalAlloc
		bound := uint64(len(b))*64*uint64(t.Reflect().Size()+64) + 1<<16
		k := ""
		if declaresOversize(b) {
			k = "thriftWireSizeAlloc"
		}
		if alloc <= bound {
			return "bounded", "bounded", k
		}
		return fmt.Sprintf("alloc=%d>bound=%d", alloc, bound), "bounded", k
	}
}

// declaresOversize: some 4-byte big-endian word or varint in b declares a count larger than len(b) (generator-side
// approximation used only to label the known allocation finding).
func declaresOversize(b []byte) bool {
	for i := 0; i+4 <= len(b); i++ {
		n := uint32(b[i])<<24 | uint32(b[i+1])<<16 | uint32(b[i+2])<<8 | uint32(b[i+3])
		if n > uint32(len(b)) && n <= 0x7fffffff {
			return true
		}
	}
	for i := 0; i < len(b); i++ {
		if v, n := uvarint(b[i:]); n > 0 && v > uint64(len(b)) && v <= 0x7fffffff {
			return true
		}
	}
	return false
}

func thriftProto(s string) thrift.Protocol {
	switch s {
	case "bs":
		return &thrift.BinaryProtocol{}
	case "bn":
		return &thrift.BinaryProtocol{NonStrict: true}
	case "c":
		return &thrift.CompactProtocol{}
	}
	panic("bad proto " + s)
}

func thriftErrClass(err error) string {
	var mf *thrift.MissingField
	var tm *thrift.TypeMismatch
	switch {
	case errors.As(err, &mf):
		return "err:missingField"
	case errors.As(err, &tm):
		return "err:typeMismatch"
	case errors.Is(err, io.ErrUnexpectedEOF):
		return "err:unexpectedEof"
	case errors.Is(err, io.EOF):
		return "err:eof"
	case strings.Contains(err.Error(), "trailing bytes"):
		return "err:trailing"
	}
	return "err:other"
}

func thriftDecode(p thrift.Protocol, strict bool, t *Ty, b []byte) string {
	tgt := reflect.New(t.Reflect())
	br := bytes.NewReader(b)
	dec := thrift.NewDecoder(p.NewReader(br))
	dec.SetStrict(strict)
	if err := dec.Decode(tgt.Interface()); err != nil {
		return thriftErrClass(err)
	}
	if br.Len() != 0 {
		return "err:trailing"
	}
	// Unmarshal itself (non-strict) must agree with the Decoder path
	if !strict {
		t2 := reflect.New(t.Reflect())
		if err := thrift.Unmarshal(p, b, t2.Interface()); err != nil || showVal(t, t2.Elem(), true) != showVal(t, tgt.Elem(), true) {
			return "unmarshal-disagrees-with-decoder"
		}
	}
	return "ok:" + showVal(t, tgt.Elem(), true)
}

// ---- type generator ---------------------------------------------------------------------------

var thriftScalars = []string{"bool", "i8", "i16", "i32", "i64", "int", "f64", "str", "bytes"}

func (h *H) genThriftElem(depth int) *Ty {
	switch r := h.Intn(12); {
	case r < 7 || depth >= 3:
		return &Ty{K: thriftScalars[h.Intn(len(thriftScalars))]}
	case r < 9:
		return h.genThriftStruct(depth + 1)
	case r < 10:
		return &Ty{K: "sl", Elem: h.genThriftElem(depth + 1)}
	case r < 11:
		return &Ty{K: "ptr", Elem: h.genThriftElem(depth + 1)}
	default:
		return h.genThriftMap(depth + 1)
	}
}

func (h *H) genThriftMap(depth int) *Ty {
	keys := []string{"str", "i8", "i16", "i32", "i64", "int", "bool"}
	k := &Ty{K: keys[h.Intn(len(keys))]}
	if h.Intn(4) == 0 {
		return &Ty{K: "map", Key: k, Elem: &Ty{K: "st"}} // set
	}
	return &Ty{K: "map", Key: k, Elem: h.genThriftElem(depth + 1)}
}

func (h *H) genThriftStruct(depth int) *Ty {
	n := h.Intn(6)
	if depth == 0 {
		n = 1 + h.Intn(7)
	}
	if h.Intn(30) == 0 {
		n = 20 + h.Intn(50) // > 64 fields happens
	}
	t := &Ty{K: "st"}
	used := map[int]bool{}
	for i := 0; i < n; i++ {
		ft := h.genThriftElem(depth)
		var id int
		for {
			switch h.Intn(8) {
			case 0:
				id = []int{15, 16, 17, 63, 64, 65, 66, 127, 128, 200, 255, 256, 1000, 32767}[h.Intn(14)]
			case 1:
				id = 1 + h.Intn(32767)
			default:
				id = 1 + h.Intn(40)
			}
			if !used[id] {
				break
			}
		}
		used[id] = true
		tag := strconv.Itoa(id)
		switch h.Intn(8) {
		case 0:
			tag += ",required"
		case 1:
			tag += ",optional"
		case 2:
			if b := baseOf(ft); (b.K == "i8" || b.K == "i16" || b.K == "i32" || b.K == "i64" || b.K == "int") && ft.K != "ptr" {
				tag += ",enum"
			}
		}
		t.Fields = append(t.Fields, Field{Name: fmt.Sprintf("F%d", i), Tag: `thrift:"` + tag + `"`, T: ft})
	}
	return t
}

func (h *H) genThriftCase() (*Ty, string) {
	for {
		t := h.genThriftStruct(0)
		v := h.genVal(t, 0)
		h.clampEnums(t, v)
		h.setRequired(t, v)
		if hasMultiMap(t, v) && nilPtrInCollection(v) {
			continue
		}
		return t, showVal(t, v, false)
	}
}

// enum fields are written as i32: keep their values in int32 range (out-of-range enums are not a thrift value)
func (h *H) clampEnums(t *Ty, v reflect.Value) {
	switch v.Kind() {
	case reflect.Struct:
		tt := unnamed(t)
		for i, f := range tt.Fields {
			if strings.Contains(f.Tag, ",enum") && v.Field(i).CanInt() {
				v.Field(i).SetInt(int64(int32(v.Field(i).Int())))
				if v.Field(i).Int() != int64(int32(v.Field(i).Int())) { // narrower kinds
					v.Field(i).SetInt(0)
				}
			}
			h.clampEnums(f.T, v.Field(i))
		}
	case reflect.Ptr:
		if !v.IsNil() {
			h.clampEnums(unnamed(t).Elem, v.Elem())
		}
	case reflect.Slice:
		if !isByteSeq(t) {
			for i := 0; i < v.Len(); i++ {
				h.clampEnums(unnamed(t).Elem, v.Index(i))
			}
		}
	}
}

// "whenever v's required fields are set": a nil pointer is not a set field
func (h *H) setRequired(t *Ty, v reflect.Value) {
	switch v.Kind() {
	case reflect.Struct:
		tt := unnamed(t)
		for i, f := range tt.Fields {
			fv := v.Field(i)
			if strings.Contains(f.Tag, ",required") {
				for x, xt := fv, f.T; x.Kind() == reflect.Ptr; x, xt = x.Elem(), unnamed(xt).Elem {
					if x.IsNil() {
						x.Set(reflect.New(x.Type().Elem()))
					}
				}
			}
			h.setRequired(f.T, fv)
		}
	case reflect.Ptr:
		if !v.IsNil() {
			h.setRequired(unnamed(t).Elem, v.Elem())
		}
	case reflect.Slice:
		if !isByteSeq(t) {
			for i := 0; i < v.Len(); i++ {
				h.setRequired(unnamed(t).Elem, v.Index(i))
			}
		}
	case reflect.Map:
		// map values are not addressable: rebuild entries whose value needs fixing is not necessary — generated
		// map values that are structs with required nil pointers are replaced by their zero-with-required-set form
		it := v.MapRange()
		for it.Next() {
			e := reflect.New(v.Type().Elem()).Elem()
			e.Set(it.Value())
			h.setRequired(unnamed(t).Elem, e)
			v.SetMapIndex(it.Key(), e)
		}
	}
}

var thriftProtos = []string{"bs", "bn", "c"}

// ---- C04 -----------------------------------------------------------------------------------------

func runC04(h *H) {
	N := 700
	if h.Thorough() {
		N = 12000
	}
	for i := 0; i < 40; i++ {
		for _, sh := range []string{"value", "pointer", "single", "wide"} {
			h.DoRisky("thrift.embedded", sh, strconv.Itoa(i))
		}
	}
	if h.Thorough() {
		h.thriftEmbedded(60)
	} else {
		h.thriftEmbedded(8)
	}
	h.thriftMessageRoundTrip(false)
	// unions: every member kind × zero / non-zero × protocols; improper union values; several members on the wire
	if h.Thorough() {
		h.thriftUnionSweep("C04", 12)
		h.thriftUnionImproper(300)
		h.thriftUnionMulti(150)
	} else {
		h.thriftUnionSweep("C04", 1)
		h.thriftUnionImproper(20)
		h.thriftUnionMulti(12)
	}
	for i := 0; i < N; i++ {
		t, val := h.genThriftCase()
		ts := t.String()
		v := parseVal(t, val)
		for _, pn := range thriftProtos {
			h.DoRisky("thrift.roundtrip", pn, ts, val)
			if !hasMultiMap(t, v) {
				h.DoRisky("thrift.marshal", pn, ts, val)
			}
		}
		h.DoRisky("thrift.cross", ts, val)
		if i%3 == 0 {
			h.DoRisky("thrift.reset", thriftProtos[h.Intn(3)], thriftProtos[h.Intn(3)], ts, val)
		}
	}
	h.ptRetainCases("thrift.retain") // call histories: results retained across further calls (ptretain.go)
}

// ---- C13 -----------------------------------------------------------------------------------------

func runC13(h *H) {
	N := 700
	if h.Thorough() {
		N = 12000
	}
	if h.Thorough() {
		h.thriftUnionSweep("C13", 10)
		h.thriftUnionImproper(100)
	} else {
		h.thriftUnionSweep("C13", 1)
		h.thriftUnionImproper(10)
	}
	for i := 0; i < N; i++ {
		t, val := h.genThriftCase()
		ts := t.String()
		v := parseVal(t, val)
		want := "ok:" + showVal(t, v, true)
		for _, pn := range thriftProtos {
			op := "thrift.marshal"
			if hasMultiMap(t, v) {
				op = "thrift.marshalx"
			}
			im, _ := h.DoRisky(op, pn, ts, val)
			if pn == "c" && strings.HasPrefix(im, "ok:") && !hasNarrowEnum(t) {
				// every specification-conformant encoding is accepted: long forms where a short form exists
				// (not for int8 enum fields: announced as I8 = one byte, written as an i32 varint — the type-agnostic walk of
				// compactLongForms cannot follow those; known finding thriftEnumFieldType)
				b := unhx(im[3:])
				if alt, ok := compactLongForms(h, b); ok && !bytes.Equal(alt, b) {
					h.DoRisky("thrift.decode", pn, "0", ts, hx(alt), want)
					h.Count("longform_cases", 1)
				}
			}
		}
	}
	// message headers (the earlier sweep: names "", "ping", 130 bytes; then the directed ones)
	for _, pn := range thriftProtos {
		for mt := 0; mt < 4; mt++ {
			for _, name := range []string{"-", "70696e67", hx(bytes.Repeat([]byte("n"), 130))} {
				for _, seq := range []string{"0", "1", "127", "128", "2147483647", "-1"} {
					h.Do("thrift.message", pn, strconv.Itoa(mt), name, seq)
				}
			}
		}
	}
	h.thriftWriterMsg()
	// field headers with an id delta and type 0 (the specification has one stop field: the byte 0); inputs with values of
	// another type than the Go type, cut at every offset from the offending field on
	h.thriftDeltaStop(true)
	h.thriftMismatch(1)
}

// hasNarrowEnum: some int8 field carries the enum tag (its value is not encoded the way its announced type says)
func hasNarrowEnum(t *Ty) bool {
	switch t.K {
	case "ptr", "sl", "arr", "named":
		return hasNarrowEnum(t.Elem)
	case "map":
		return hasNarrowEnum(t.Key) || hasNarrowEnum(t.Elem)
	case "st":
		for _, f := range t.Fields {
			if strings.Contains(f.Tag, ",enum") && baseOf(f.T).K == "i8" {
				return true
			}
			if hasNarrowEnum(f.T) {
				return true
			}
		}
	}
	return false
}

// compactLongForms re-encodes a compact-protocol struct stream using long forms for field headers and list headers
// (a generic, type-agnostic walk of the compact encoding).
func compactLongForms(h *H, b []byte) ([]byte, bool) {
	var out []byte
	pos := 0
	var walkStruct func() bool
	var walkValue func(t byte) bool
	fail := false
	need := func(n int) bool {
		if n < 0 || n > len(b) || pos+n > len(b) {
			fail = true
			return false
		}
		return true
	}
	copyVarint := func() (uint64, bool) {
		v, n := uvarint(b[pos:])
		if n <= 0 {
			fail = true
			return 0, false
		}
		out = append(out, b[pos:pos+n]...)
		pos += n
		return v, true
	}
	zz := func(i int64) []byte { return putUvarint(uint64((i<<1)^(i>>63)), 0) }
	walkValue = func(t byte) bool {
		switch t {
		case 1, 2, 3: // bool element / i8: one byte
			if !need(1) {
				return false
			}
			out = append(out, b[pos])
			pos++
		case 4, 5, 6:
			if _, ok := copyVarint(); !ok {
				return false
			}
		case 7:
			if !need(8) {
				return false
			}
			out = append(out, b[pos:pos+8]...)
			pos += 8
		case 8:
			n, ok := copyVarint()
			if !ok || n > uint64(len(b)) || !need(int(n)) {
				fail = true
				return false
			}
			out = append(out, b[pos:pos+int(n)]...)
			pos += int(n)
		case 9, 10:
			if !need(1) {
				return false
			}
			hd := b[pos]
			pos++
			size := uint64(hd >> 4)
			et := hd & 0xf
			if size == 15 {
				v, n := uvarint(b[pos:])
				if n <= 0 {
					fail = true
					return false
				}
				size = v
				pos += n
			}
			if h.Bool() || size >= 15 {
				out = append(out, 0xF0|et)
				out = append(out, putUvarint(size, 0)...)
			} else {
				out = append(out, byte(size<<4)|et)
			}
			for i := uint64(0); i < size; i++ {
				if !walkValue(et) {
					return false
				}
			}
		case 11:
			n, ok := copyVarint()
			if !ok {
				return false
			}
			if n == 0 {
				return true
			}
			if !need(1) {
				return false
			}
			kv := b[pos]
			out = append(out, kv)
			pos++
			for i := uint64(0); i < n; i++ {
				if !walkValue(kv>>4) || !walkValue(kv&0xf) {
					return false
				}
			}
		case 12:
			return walkStruct()
		default:
			fail = true
			return false
		}
		return true
	}
	walkStruct = func() bool {
		last := int64(0)
		for {
			if !need(1) {
				return false
			}
			hd := b[pos]
			pos++
			if hd == 0 {
				out = append(out, 0)
				return true
			}
			var id int64
			t := hd & 0xf
			if hd>>4 != 0 {
				id = last + int64(hd>>4)
			} else {
				v, n := uvarint(b[pos:])
				if n <= 0 {
					fail = true
					return false
				}
				pos += n
				id = int64(v>>1) ^ -int64(v&1)
			}
			if h.Intn(3) != 0 || id-last > 15 || id-last <= 0 {
				out = append(out, t) // long form: type byte then zig-zag id
				out = append(out, zz(id)...)
			} else {
				out = append(out, byte(id-last)<<4|t)
			}
			last = id
			if t != 1 && t != 2 { // bool fields carry no value
				if !walkValue(t) {
					return false
				}
			}
		}
	}
	ok := walkStruct()
	return out, ok && !fail && pos == len(b)
}

// ---- C08 -----------------------------------------------------------------------------------------

func (h *H) thriftUnknownField(pn string, depth int) []byte {
	// a well-formed field with an id outside the generator's range, encoded through the real writer
	type inner struct {
		A int32             `thrift:"1"`
		B string            `thrift:"2"`
		C []int16           `thrift:"3"`
		D map[string]bool   `thrift:"4"`
		E bool              `thrift:"5"`
		F map[int8]struct{} `thrift:"6"`
	}
	var buf bytes.Buffer
	p := thriftProto(pn)
	w := p.NewWriter(&buf)
	enc := thrift.NewEncoder(w)
	id := int16(20000 + h.Intn(10000))
	switch h.Intn(14) {
	case 9: // collections of bools: in the compact protocol only a bool FIELD lives in its header, elements are bytes
		w.WriteField(thrift.Field{ID: id, Type: thrift.LIST})
		l := make([]bool, 1+h.Intn(5))
		for i := range l {
			l[i] = h.Bool()
		}
		enc.Encode(l)
	case 10:
		w.WriteField(thrift.Field{ID: id, Type: thrift.SET})
		enc.Encode(map[bool]struct{}{h.Bool(): {}})
	case 11:
		w.WriteField(thrift.Field{ID: id, Type: thrift.MAP})
		enc.Encode(map[string]bool{"a": h.Bool(), "bb": true, "c": false})
	case 12:
		w.WriteField(thrift.Field{ID: id, Type: thrift.LIST})
		enc.Encode([][]bool{{true, false}, {}, {h.Bool()}})
	case 13:
		w.WriteField(thrift.Field{ID: id, Type: thrift.MAP})
		enc.Encode(map[bool][]bool{true: {false, true}, false: nil})
	case 0:
		w.WriteField(thrift.Field{ID: id, Type: thrift.I64})
		w.WriteInt64(int64(h.U64()))
	case 1:
		w.WriteField(thrift.Field{ID: id, Type: thrift.BINARY})
		w.WriteBytes(h.Bytes(h.Intn(40)))
	case 2:
		w.WriteField(thrift.Field{ID: id, Type: thrift.STRUCT})
		enc.Encode(inner{A: 5, B: "x", C: []int16{1, 2, 3}, D: map[string]bool{"k": true}, E: true, F: map[int8]struct{}{3: {}}})
	case 3:
		w.WriteField(thrift.Field{ID: id, Type: thrift.LIST})
		enc.Encode([]inner{{A: 1}, {B: "yy", E: true}})
	case 4:
		w.WriteField(thrift.Field{ID: id, Type: thrift.MAP})
		enc.Encode(map[int32][]string{1: {"a", "b"}, 2: nil})
	case 5:
		if pn == "c" {
			t := thrift.TRUE
			if h.Bool() {
				t = thrift.FALSE
			}
			w.WriteField(thrift.Field{ID: id, Type: t}) // value lives in the header
		} else {
			w.WriteField(thrift.Field{ID: id, Type: thrift.BOOL})
			w.WriteBool(h.Bool())
		}
	case 6:
		w.WriteField(thrift.Field{ID: id, Type: thrift.DOUBLE})
		w.WriteFloat64(1.5)
	case 7:
		w.WriteField(thrift.Field{ID: id, Type: thrift.SET})
		enc.Encode(map[string]struct{}{"a": {}, "bb": {}})
	default:
		w.WriteField(thrift.Field{ID: id, Type: thrift.I8})
		w.WriteInt8(int8(h.U64()))
	}
	return buf.Bytes()
}

func runC08(h *H) {
	N := 250
	if h.Thorough() {
		N = 4000
	}
	h.thriftMismatch(0)
	h.thriftBadTypes()
	h.thriftDeltaStop(true)
	h.thriftDepth()
	if h.Thorough() {
		h.thriftUnionSweep("C08", 4)
		h.thriftUnionMulti(60)
		defer h.thriftUnionEmbedded(12)
	} else {
		h.thriftUnionSweep("C08", 1)
		h.thriftUnionMulti(6)
		defer h.thriftUnionEmbedded(2)
	}
	for i := 0; i < N; i++ {
		t, val := h.genThriftCase()
		ts := t.String()
		v := parseVal(t, val)
		for _, pn := range thriftProtos {
			p := thriftProto(pn)
			b, err := thrift.Marshal(p, v.Interface())
			if err != nil {
				continue
			}
			good := thriftDecode(p, false, t, b)
			// truncation at every offset: unexpected-EOF class (plain EOF only for empty input)
			// every offset of messages up to 160 (quick) / 600 (thorough) bytes; longer ones: the first 100 offsets
			// and 100 sampled ones (the harness output is quadratic in the message length)
			offsets := []int{}
			full := 160
			if h.Thorough() {
				full = 600
			}
			if len(b) <= full {
				for n := 0; n < len(b); n++ {
					offsets = append(offsets, n)
				}
			} else {
				for n := 0; n < 100; n++ {
					offsets = append(offsets, n)
				}
				for k := 0; k < 100; k++ {
					offsets = append(offsets, 100+h.Intn(len(b)-100))
				}
			}
			for _, n := range offsets {
				o := "err:unexpectedEof"
				if n == 0 {
					o = "err:eof"
				}
				if strings.HasPrefix(good, "ok:") {
					h.DoRisky("thrift.decode", pn, "0", ts, hx(b[:n]), o)
				} else {
					h.DoRisky("thrift.decode", pn, "0", ts, hx(b[:n]))
				}
			}
			// trailing bytes are reported
			if strings.HasPrefix(good, "ok:") {
				h.DoRisky("thrift.decode", pn, "0", ts, hx(append(append([]byte{}, b...), byte(h.U64()))), "err:trailing")
			}
			// unknown field appended before the final stop (top level): value unchanged
			if strings.HasPrefix(good, "ok:") && len(b) > 0 {
				stopLen := 1
				if pn != "c" {
					stopLen = 3
				}
				if len(b) >= stopLen {
					unk := h.thriftUnknownField(pn, 0)
					e := append(append(append([]byte{}, b[:len(b)-stopLen]...), unk...), b[len(b)-stopLen:]...)
					h.DoRisky("thrift.decode", pn, "0", ts, hx(e), good)
					h.Count("unknown_field_cases", 1)
				}
			}
			// mutations (model correspondence + allocation bound)
			for k := 0; k < 4; k++ {
				m := h.mutate(b)
				strict := strconv.Itoa(h.Intn(2))
				h.DoRisky("thrift.decode", pn, strict, ts, hx(m))
				if k == 0 {
					h.DoRisky("thrift.alloc", pn, ts, hx(m))
				}
			}
		}
	}
	// top-level values that are not structs (strings, binaries, collections, pointers): truncation at every offset
	for _, tv := range [][2]string{{"str", "s 616263"}, {"bytes", "s 0102030405"}, {"sl str", "l 2 s 61 s 6263"}, {"ptr str", "p s 7a7a"},
		{"map str i32", "m 1 s 6b i 7"}, {"sl sl i64", "l 2 l 1 i 5 l 0"}, {"str", "s -"}} {
		t := parseTy(tv[0])
		v := parseVal(t, tv[1])
		for _, pn := range thriftProtos {
			b, err := thrift.Marshal(thriftProto(pn), v.Interface())
			if err != nil {
				continue
			}
			for n := 0; n < len(b); n++ {
				o := "err:unexpectedEof"
				if n == 0 {
					o = "err:eof"
				}
				h.DoRisky("thrift.decode", pn, "0", tv[0], hx(b[:n]), o)
			}
			h.DoRisky("thrift.decode", pn, "0", tv[0], hx(b), thriftDecode(thriftProto(pn), false, t, b))
		}
	}
	// collections whose bool element / key / value type is announced as 1 (TRUE): the specification asks readers to accept it
	for _, c := range [][3]string{{"map bool i8", "01130105", "01230105"}, {"map i8 bool", "01310501", "01320501"}, {"sl bool", "210100", "220100"},
		{"map bool bool", "01110101", "01220101"}} {
		t := parseTy(c[0])
		for _, strict := range []string{"0", "1"} {
			h.DoRisky("thrift.decode", "c", strict, c[0], c[1], thriftDecode(thriftProto("c"), false, t, unhx(c[2])))
		}
	}
	// missing required field / strict type mismatch, directed
	req := `st 2 f A 7468726966743a22312c726571756972656422 0 i32 f B 7468726966743a223222 0 str`
	for _, pn := range thriftProtos {
		p := thriftProto(pn)
		type onlyB struct {
			B string `thrift:"2"`
		}
		b, _ := thrift.Marshal(p, onlyB{"x"})
		h.DoRisky("thrift.decode", pn, "0", req, hx(b), "err:missingField")
		type wrongA struct {
			A string `thrift:"1,required"`
			B string `thrift:"2"`
		}
		b, _ = thrift.Marshal(p, wrongA{"zz", "x"})
		h.DoRisky("thrift.decode", pn, "1", req, hx(b), "err:typeMismatch")
		// lengths and sizes of 2^63 and above (ten-byte varints): rejected, never a panic or a bogus small size
		if pn == "c" {
			for _, big := range []uint64{1 << 63, 1<<63 + 3, 1<<64 - 1, 1<<63 + 1<<31 + 2} {
				v := putUvarint(big, 0)
				h.DoRisky("thrift.alloc", pn, `st 1 f A 7468726966743a223122 0 str`, hx(append(append([]byte{0x18}, v...), 'a', 'b', 'c', 0)))
				h.DoRisky("thrift.alloc", pn, `st 1 f A 7468726966743a223122 0 sl i64`, hx(append(append([]byte{0x19, 0xF6}, v...), 2, 4, 0)))
				h.DoRisky("thrift.alloc", pn, `st 1 f A 7468726966743a223122 0 map str i32`, hx(append(append([]byte{0x1b}, v...), 0x85, 1, 'k', 2, 0)))
				h.DoRisky("thrift.decode", pn, "0", `st 1 f A 7468726966743a223122 0 i32`, hx(append(append([]byte{0x88}, v...), 0))) // unknown binary field id 8? (skipped)
			}
		}
		// huge declared sizes in a tiny input
		lst := `st 1 f A 7468726966743a223122 0 sl i64`
		for _, sz := range []uint32{0x7fffffff, 0x22000000, 0x80000000, 0xffffffff, 1 << 20} {
			var e []byte
			if pn == "c" {
				e = append([]byte{0x19, 0xF6}, putUvarint(uint64(sz), 0)...)
			} else {
				e = []byte{9, 0, 1, 6, byte(sz >> 24), byte(sz >> 16), byte(sz >> 8), byte(sz)}
			}
			h.DoRisky("thrift.alloc", pn, lst, hx(e))
		}
	}
	// allocation clause: measured allocation against the accounting model (thriftalloc.go)
	h.thriftAllocCases()
	runC09HistErr(h, "C08") // c09histerr.go
}

// ---- directed generators for the decoder / writer repairs ------------------------------------------
//
//	thriftMismatch   a value whose wire type does not match the Go type is skipped (non-strict) / reported (strict)
//	thriftDeltaStop  compact field header with an id delta and type 0 is an error; binary type 0 is a stop whatever the id
//	thriftDepth      nesting at the decoder's depth limit (maxDepth = 10000)
//	thriftWriterMsg  WriteField forms, message headers written and read back, hand-made message headers

// tbuild writes thrift bytes through the real Writer / Encoder.
type tbuild struct {
	pn   string
	buf  bytes.Buffer
	w    thrift.Writer
	enc  *thrift.Encoder
	last int16
}

func newTB(pn string) *tbuild {
	b := &tbuild{pn: pn}
	b.w = thriftProto(pn).NewWriter(&b.buf)
	b.enc = thrift.NewEncoder(b.w)
	return b
}

func (b *tbuild) bytes() []byte { return append([]byte{}, b.buf.Bytes()...) }

// field header: the compact short form when it exists and short is set, the long form otherwise
func (b *tbuild) field(id int16, t thrift.Type, short bool) {
	d := int(id) - int(b.last)
	if b.pn == "c" && short && d > 0 && d <= 15 {
		b.w.WriteField(thrift.Field{ID: int16(d), Type: t, Delta: true})
	} else {
		b.w.WriteField(thrift.Field{ID: id, Type: t})
	}
	b.last = id
}

func (b *tbuild) stop() { b.w.WriteField(thrift.Field{Type: thrift.STOP}) }

// wval: a value on the wire (its thrift type and how to write it)
type wval struct {
	t   thrift.Type
	bv  int // bool values: 1 = true (a compact bool FIELD lives in its header)
	put func(b *tbuild)
}

func wOf(v any) wval {
	w := wval{t: thrift.TypeOf(reflect.TypeOf(v)), put: func(b *tbuild) { b.enc.Encode(v) }}
	if x, ok := v.(bool); ok && x {
		w.bv = 1
	}
	return w
}

func wRaw(t thrift.Type, raw []byte) wval {
	return wval{t: t, put: func(b *tbuild) { b.buf.Write(raw) }}
}

func wList(set bool, et thrift.Type, elems ...wval) wval {
	t := thrift.LIST
	if set {
		t = thrift.SET
	}
	return wval{t: t, put: func(b *tbuild) {
		if set {
			b.w.WriteSet(thrift.Set{Size: int32(len(elems)), Type: et})
		} else {
			b.w.WriteList(thrift.List{Size: int32(len(elems)), Type: et})
		}
		for _, e := range elems {
			e.put(b)
		}
	}}
}

func wMap(kt, vt thrift.Type, kv ...wval) wval {
	return wval{t: thrift.MAP, put: func(b *tbuild) {
		b.w.WriteMap(thrift.Map{Size: int32(len(kv) / 2), Key: kt, Value: vt})
		for _, e := range kv {
			e.put(b)
		}
	}}
}

type wfld struct {
	id int16
	v  wval
}

func wStruct(fs ...wfld) wval {
	return wval{t: thrift.STRUCT, put: func(b *tbuild) {
		save := b.last
		b.last = 0
		for _, f := range fs {
			b.putField(f.id, f.v, true)
		}
		b.stop()
		b.last = save
	}}
}

func wRep(v wval, n int) []wval {
	out := make([]wval, n)
	for i := range out {
		out[i] = v
	}
	return out
}

// putField writes one struct field: header and value (a compact bool field is its header)
func (b *tbuild) putField(id int16, v wval, short bool) {
	if b.pn == "c" && (v.t == thrift.TRUE || v.t == thrift.BOOL) {
		t := thrift.BOOL
		if v.bv == 1 {
			t = thrift.TRUE
		}
		b.field(id, t, short)
		return
	}
	b.field(id, v.t, short)
	v.put(b)
}

func tyF(name string, id int, opts string, t *Ty) Field {
	return Field{Name: name, Tag: fmt.Sprintf(`thrift:"%d%s"`, id, opts), T: t}
}

var mmKinds = []string{"bool", "i8", "i16", "i32", "i64", "f64", "str", "list", "set", "map", "struct"}

var mmGoTy = map[string]string{"bool": "bool", "i8": "i8", "i16": "i16", "i32": "i32", "i64": "i64", "f64": "f64", "str": "str",
	"list": "sl i32", "set": "map i32 st 0", "map": "map i8 str", "struct": "st 1 f P 7468726966743a223122 0 i16"}

type mmP struct {
	P int16 `thrift:"1"`
}
type mmInner struct {
	A int32             `thrift:"1"`
	B string            `thrift:"2"`
	C []int16           `thrift:"3"`
	D map[string]bool   `thrift:"4"`
	E bool              `thrift:"5"`
	F map[int8]struct{} `thrift:"6"`
	G bool              `thrift:"7,required"`
	H *mmP              `thrift:"8"`
}

// wire samples of one kind; the first ones are written by the Encoder from a Go value of that kind
func mmWire(kind string) []wval {
	switch kind {
	case "bool":
		return []wval{wOf(true), wOf(false), {t: thrift.TRUE, bv: 1, put: func(b *tbuild) { b.w.WriteBool(true) }}}
	case "i8":
		return []wval{wOf(int8(0x11)), wOf(int8(-3))}
	case "i16":
		return []wval{wOf(int16(0x1234)), wOf(int16(-2))}
	case "i32":
		return []wval{wOf(int32(0x12345678)), wOf(int32(-70000))}
	case "i64":
		return []wval{wOf(int64(0x123456789abcdef)), wOf(int64(-1))}
	case "f64":
		return []wval{wOf(1.5)}
	case "str":
		return []wval{wOf("hello"), wOf(""), wOf(strings.Repeat("z", 200)), wOf([]byte{0, 1, 2})}
	case "list":
		return []wval{wOf([]int32{1, 2, 3}), wOf([]string{"a", "bc"}), wOf([][]bool{{true}, {}}), wOf([]int64{}), wOf(make([]int8, 20)),
			wOf([]mmP{{1}, {2}}), wOf([]bool{true, false})}
	case "set":
		return []wval{wOf(map[int32]struct{}{7: {}}), wOf(map[string]struct{}{"k": {}}), wOf(map[int32]struct{}{}),
			wList(true, thrift.LIST, wOf([]int8{1}), wOf([]int8{})), wList(true, thrift.I64, wRep(wOf(int64(300)), 17)...)}
	case "map":
		return []wval{wOf(map[int8]string{1: "a"}), wOf(map[string][]int16{"k": {1, 2}}), wOf(map[int8]string{}), wOf(map[bool]bool{true: false}),
			wMap(thrift.STRUCT, thrift.MAP, wStruct(wfld{3, wOf(true)}), wOf(map[int8]int8{1: 2}), wStruct(), wOf(map[int8]int8{}))}
	case "struct":
		return []wval{wOf(mmP{5}), wOf(struct{}{}),
			wOf(mmInner{A: 5, B: "x", C: []int16{1, 2, 3}, D: map[string]bool{"k": true}, E: true, F: map[int8]struct{}{3: {}}, H: &mmP{9}}),
			wStruct(wfld{1, wOf("not an i16")}, wfld{300, wOf(false)}, wfld{2, wOf(mmP{1})})}
	}
	panic("kind " + kind)
}

type mmSpec struct {
	pn     string
	xty    *Ty
	xopts  string // e.g. ",required"
	wire   wval
	equiv  *wval  // what a non-strict decoder is expected to see in place of `wire` (nil = nothing: the field is absent)
	pos    int    // 0 first, 1 middle, 2 last, 3 the only field
	oracle bool   // the non-strict result is known: that of the message with `equiv`
	strict string // strict-mode oracle: "" none, "same" as non-strict, or an error class
	trunc  bool   // also every truncation from the start of the field on
	mode   int    // 0: the complete inputs (both strictness settings); 1: the truncations only (specs with trunc set)
}

// mismatchCase: struct {A i32 (1); X xty (xid); B str (3); C bool (4)} with the field X encoded as `wire`, the other
// fields (recognisable values) around it.
func (h *H) mismatchCase(s mmSpec) {
	if s.mode == 1 && !s.trunc {
		return
	}
	p := thriftProto(s.pn)
	xid := []int{2, 5, 20, 300}[h.Intn(4)]
	ty := &Ty{K: "st"}
	fx := tyF("X", xid, s.xopts, s.xty)
	if s.pos == 3 {
		ty.Fields = []Field{fx}
	} else {
		ty.Fields = []Field{tyF("A", 1, "", &Ty{K: "i32"}), fx, tyF("B", 3, "", &Ty{K: "str"}), tyF("C", 4, "", &Ty{K: "bool"})}
	}
	ts := ty.String()
	a := int32(h.U64())
	bs := make([]byte, 1+h.Intn(5))
	for i := range bs {
		bs[i] = byte('a' + h.Intn(26))
	}
	c := h.Intn(4) != 0
	short := h.Intn(3) != 0
	order := [][]string{{"X", "A", "B", "C"}, {"A", "X", "B", "C"}, {"A", "B", "C", "X"}, {"X"}}[s.pos]
	build := func(x *wval) (out []byte, xs int) {
		b := newTB(s.pn)
		for _, f := range order {
			switch f {
			case "A":
				b.putField(1, wOf(a), short)
			case "B":
				b.putField(3, wOf(string(bs)), short)
			case "C":
				b.putField(4, wOf(c), short)
			case "X":
				xs = b.buf.Len()
				if x != nil {
					b.putField(int16(xid), *x, short)
				}
			}
		}
		b.stop()
		return b.bytes(), xs
	}
	full, xs := build(&s.wire)
	want := ""
	if s.oracle {
		eq, _ := build(s.equiv)
		if w := thriftDecode(p, false, ty, eq); strings.HasPrefix(w, "ok:") {
			want = w
		}
	}
	h.Count("mismatch_cases", 1)
	if want != "" {
		h.DoRisky("thrift.decode", s.pn, "0", ts, hx(full), want)
	} else {
		h.DoRisky("thrift.decode", s.pn, "0", ts, hx(full))
	}
	if s.mode == 0 {
		switch {
		case s.strict == "same" && want != "":
			h.DoRisky("thrift.decode", s.pn, "1", ts, hx(full), want)
		case s.strict != "" && s.strict != "same":
			h.DoRisky("thrift.decode", s.pn, "1", ts, hx(full), s.strict)
		default:
			h.DoRisky("thrift.decode", s.pn, "1", ts, hx(full))
		}
	}
	if s.trunc && s.mode == 1 {
		if xs == 0 {
			xs = 1
		}
		for n := xs; n < len(full); n++ {
			h.DoRisky("thrift.decode", s.pn, b01(h.Intn(4) == 0), ts, hx(full[:n]))
			h.Count("mismatch_truncations", 1)
		}
	}
}

func (h *H) thriftMismatch(mode int) {
	const tm = "err:typeMismatch"
	for _, pn := range thriftProtos {
		// (1) every ordered pair (wire kind, Go kind) at the field level
		for _, wk := range mmKinds {
			for wi, wv := range mmWire(wk) {
				for _, gk := range mmKinds {
					gt := parseTy(mmGoTy[gk])
					poss := []int{h.Intn(3)}
					if wi == 0 || h.Thorough() {
						poss = []int{0, 1, 2, 3}
					}
					for _, pos := range poss {
						s := mmSpec{mode: mode, pn: pn, xty: gt, wire: wv, pos: pos, trunc: wi == 0 && pos == 1 || h.Thorough() && pos == wi%4}
						if wk != gk {
							s.oracle, s.strict = true, tm
						}
						h.mismatchCase(s)
					}
				}
			}
		}
		// a pointer field, a required field (present with the wrong type: seen, so not missing)
		for _, wk := range mmKinds {
			if wk != "i32" {
				h.mismatchCase(mmSpec{mode: mode, pn: pn, xty: parseTy("ptr i32"), wire: mmWire(wk)[0], pos: h.Intn(4), oracle: true, strict: tm})
				h.mismatchCase(mmSpec{mode: mode, pn: pn, xty: parseTy("i32"), xopts: ",required", wire: mmWire(wk)[0], pos: h.Intn(4)})
			}
		}
		// (2) the ELEMENTS of a list / set / map have another type than the Go element type
		for _, ek := range mmKinds {
			es := mmWire(ek)
			e, et := es[0], es[0].t
			e2 := es[1%len(es)]
			if e2.t != et {
				e2 = e
			}
			tr := func() bool { return pn == "c" || h.Thorough() || h.Intn(4) == 0 }
			if ek != "i32" {
				for _, n := range []int{0, 1, 3, 16} {
					if n == 16 && h.Intn(3) != 0 {
						continue
					}
					els := wRep(e, n)
					if n > 1 {
						els[1] = e2
					}
					// list: the type is compared before the size (an empty list of another type is a mismatch)
					h.mismatchCase(mmSpec{mode: mode, pn: pn, xty: parseTy("sl i32"), wire: wList(false, et, els...), pos: h.Intn(4), oracle: true, strict: tm, trunc: n == 3 && tr()})
					// set and map: size 0 returns before the types are compared
					st := tm
					if n == 0 {
						st = "same"
					}
					h.mismatchCase(mmSpec{mode: mode, pn: pn, xty: parseTy("map i32 st 0"), wire: wList(true, et, els...), pos: h.Intn(4), oracle: true, strict: st, trunc: n == 3 && tr()})
					if n == 16 {
						continue
					}
					var kv, vv, bb []wval
					other := mmWire(mmKinds[(h.Intn(len(mmKinds)))])[0]
					for i := 0; i < n; i++ {
						kv = append(kv, els[i], wOf("v"))
						vv = append(vv, wOf(int32(i)), els[i])
						bb = append(bb, els[i], other)
					}
					h.mismatchCase(mmSpec{mode: mode, pn: pn, xty: parseTy("map i32 str"), wire: wMap(et, thrift.BINARY, kv...), pos: h.Intn(4), oracle: true, strict: st, trunc: n == 3 && tr()})
					if ek != "str" {
						h.mismatchCase(mmSpec{mode: mode, pn: pn, xty: parseTy("map i32 str"), wire: wMap(thrift.I32, et, vv...), pos: h.Intn(4), oracle: true, strict: st, trunc: n == 1 && tr()})
					}
					if other.t != thrift.BINARY {
						h.mismatchCase(mmSpec{mode: mode, pn: pn, xty: parseTy("map i32 str"), wire: wMap(et, other.t, bb...), pos: h.Intn(4), oracle: true, strict: st})
					}
				}
				// other Go element types against the same wire elements
				for _, gts := range []string{"sl str", "sl sl i8", "sl " + mmGoTy["struct"], "sl ptr i32", "map str st 0", "map str map i8 i8"} {
					gt := parseTy(gts)
					var w wval
					switch {
					case gt.K == "sl":
						w = wList(false, et, e, e2)
					case gt.Elem.K == "st":
						w = wList(true, et, e)
					default:
						w = wMap(thrift.BINARY, et, wOf("k"), e)
					}
					gte := thrift.TypeOf(gt.Elem.Reflect())
					if gt.K == "map" && gt.Elem.K == "st" {
						gte = thrift.BINARY
					}
					if gte != et && !(gte == thrift.BOOL && et == thrift.TRUE) {
						h.mismatchCase(mmSpec{mode: mode, pn: pn, xty: gt, wire: w, pos: h.Intn(4), oracle: true, strict: tm})
					} else {
						h.mismatchCase(mmSpec{mode: mode, pn: pn, xty: gt, wire: w, pos: h.Intn(4)})
					}
				}
				// (3) the mismatch sits deeper: inside a matching list / map value / struct / list of structs
				q := func(v int16) wfld { return wfld{2, wOf(v)} }
				pq := "st 2 f P 7468726966743a223122 0 %s f Q 7468726966743a223222 0 i16"
				nested := []struct {
					gt    string
					wire  wval
					equiv wval
				}{
					{"sl sl i32", wList(false, thrift.LIST, wList(false, et, e, e2), wList(false, et)), wOf([][]int32{{}, {}})},
					{"map i8 sl i32", wMap(thrift.I8, thrift.LIST, wOf(int8(1)), wList(false, et, e)), wOf(map[int8][]int32{1: {}})},
					{fmt.Sprintf(pq, "sl i32"), wStruct(wfld{1, wList(false, et, e)}, q(5)), wStruct(q(5))},
					{"sl " + fmt.Sprintf(pq, "i32"), wList(false, thrift.STRUCT, wStruct(wfld{1, e}, q(6)), wStruct(q(7), wfld{1, e2})),
						wList(false, thrift.STRUCT, wStruct(q(6)), wStruct(q(7)))},
					{"map str map i32 st 0", wMap(thrift.BINARY, thrift.SET, wOf("k"), wList(true, et, e)), wOf(map[string]map[int32]struct{}{"k": {}})},
					{"sl map i32 str", wList(false, thrift.MAP, wMap(et, thrift.BINARY, e, wOf("v"))), wOf([]map[int32]string{{}})},
					// a field that is present with the right type allocates its pointer, then the elements are skipped
					{"ptr " + fmt.Sprintf(pq, "ptr sl ptr i32"), wStruct(q(8), wfld{1, wList(false, et, e, e)}), wStruct(q(8), wfld{1, wList(false, thrift.I32)})},
				}
				for _, c := range nested {
					eq := c.equiv
					h.mismatchCase(mmSpec{mode: mode, pn: pn, xty: parseTy(c.gt), wire: c.wire, equiv: &eq, pos: h.Intn(4), oracle: true, strict: tm, trunc: tr() && h.Intn(2) == 0})
				}
			}
		}
	}
}

// thriftBadTypes: type codes that are no thrift type (0 as a value type, 13 and up) where a mismatching or unknown value
// would be skipped: field headers, list / set element types, map key / value types; sizes 0 and 1
func (h *H) thriftBadTypes() {
	const tm = "err:typeMismatch"
	for _, pn := range thriftProtos {
		codes := []int{0, 13, 14, 15}
		if pn != "c" {
			codes = append(codes, 16, 0x7f, -128, -1, -3)
		}
		for _, tc := range codes {
			t := thrift.Type(tc)
			junk := wRaw(t, []byte{1, 2, 3, 4, 5, 6, 7, 8, 9})
			if tc != 0 {
				// a field of that type: declared id (non-strict: cannot be skipped; strict: reported first), unknown id
				h.mismatchCase(mmSpec{pn: pn, xty: parseTy("i32"), wire: junk, pos: h.Intn(4), strict: tm})
				b := newTB(pn)
				b.putField(1, wOf(int32(5)), true)
				b.putField(77, junk, h.Bool())
				b.stop()
				h.DoRisky("thrift.decode", pn, b01(h.Bool()), "st 1 f A 7468726966743a223122 0 i32", hx(b.bytes()), "err:other")
			}
			for _, n := range []int{0, 1} {
				els := wRep(junk, n)
				// element type of a list (compared before the size) / of a set (size 0 returns first)
				h.mismatchCase(mmSpec{pn: pn, xty: parseTy("sl i32"), wire: wList(false, t, els...), pos: h.Intn(4), oracle: n == 0, strict: tm})
				st, o := tm, false
				if n == 0 {
					st, o = "same", true
				}
				h.mismatchCase(mmSpec{pn: pn, xty: parseTy("map i32 st 0"), wire: wList(true, t, els...), pos: h.Intn(4), oracle: o, strict: st})
				// key type, value type of a map; in a skipped (unknown) field too
				kv := []wval{}
				vk := []wval{}
				if n == 1 {
					kv = []wval{junk, wOf("v")}
					vk = []wval{wOf(int32(1)), junk}
				}
				h.mismatchCase(mmSpec{pn: pn, xty: parseTy("map i32 str"), wire: wMap(t, thrift.BINARY, kv...), pos: h.Intn(4), oracle: o, strict: st})
				h.mismatchCase(mmSpec{pn: pn, xty: parseTy("map i32 str"), wire: wMap(thrift.I32, t, vk...), pos: h.Intn(4), oracle: o, strict: st})
				for _, w := range []wval{wList(false, t, els...), wList(true, t, els...), wMap(t, thrift.I8, kv...), wMap(thrift.I32, t, vk...)} {
					b := newTB(pn)
					b.putField(1, wOf(int32(5)), true)
					b.putField(77, w, h.Bool())
					b.putField(2, wOf("s"), true)
					b.stop()
					if n == 0 {
						h.DoRisky("thrift.decode", pn, b01(h.Bool()), "st 1 f A 7468726966743a223122 0 i32", hx(b.bytes()), "ok:t 1 i 5")
					} else {
						h.DoRisky("thrift.decode", pn, b01(h.Bool()), "st 1 f A 7468726966743a223122 0 i32", hx(b.bytes()), "err:other")
					}
				}
			}
		}
	}
}

// thriftDeltaStop: a compact field header 0x10..0xF0 (id delta, type nibble 0) is an error wherever a field header is
// read (decoded struct, skipped struct; top level, nested); a binary field header with type 0 ends the struct whatever
// its id.
func (h *H) thriftDeltaStop(full bool) {
	known := &Ty{K: "st", Fields: []Field{tyF("A", 1, "", &Ty{K: "i32"}), tyF("B", 2, "", &Ty{K: "str"}), tyF("C", 3, "", &Ty{K: "bool"})}}
	unknown := &Ty{K: "st", Fields: []Field{tyF("Z", 100, "", &Ty{K: "i8"})}}
	// the fields of {A, B, C} one by one
	chunks := func(pn string) [][]byte {
		b := newTB(pn)
		var out [][]byte
		at := 0
		for i, v := range []wval{wOf(int32(h.U64())), wOf("stop"), wOf(true)} {
			b.putField(int16(i+1), v, true)
			out = append(out, append([]byte{}, b.buf.Bytes()[at:]...))
			at = b.buf.Len()
		}
		return out
	}
	join := func(cs [][]byte, at int, ins []byte, stop []byte) []byte {
		var out []byte
		for i, c := range cs {
			if i == at {
				out = append(out, ins...)
			}
			out = append(out, c...)
		}
		if at >= len(cs) {
			out = append(out, ins...)
		}
		return append(out, stop...)
	}
	// --- compact
	cs := chunks("c")
	inner := func(d byte, pos int) []byte { // struct {A, B, C} with the byte d before field number pos (3: before the stop, 4: instead of it)
		if pos == 4 {
			return join(cs, 3, []byte{d}, nil)
		}
		return join(cs, pos, []byte{d}, []byte{0})
	}
	for d := 0x10; d <= 0xF0; d += 0x10 {
		for pos := 0; pos <= 4; pos++ {
			if !full && pos != (d>>4)%5 {
				continue
			}
			body := inner(byte(d), pos)
			for _, ty := range []*Ty{known, unknown} {
				for _, strict := range []string{"0", "1"} {
					h.DoRisky("thrift.decode", "c", strict, ty.String(), hx(body), "err:other")
				}
			}
			h.Count("deltastop_cases", 4)
		}
		// nested: in a decoded list of structs, in skipped values (unknown field: struct, list / set of structs, map with
		// struct keys / values, struct in struct), in a mismatching declared field
		pos := h.Intn(5)
		bad := wRaw(thrift.STRUCT, inner(byte(d), pos))
		good := wRaw(thrift.STRUCT, join(cs, 0, nil, []byte{0}))
		lty := &Ty{K: "st", Fields: []Field{tyF("L", 1, "", &Ty{K: "sl", Elem: known}), tyF("Z", 2, "", &Ty{K: "i16"})}}
		wrap := []struct {
			ty     *Ty
			fields []wfld
			strict string // strict-mode oracle
		}{
			{lty, []wfld{{1, wList(false, thrift.STRUCT, bad)}, {2, wOf(int16(7))}}, "err:other"},
			{lty, []wfld{{1, wList(false, thrift.STRUCT, good, good, bad)}, {2, wOf(int16(7))}}, "err:other"},
			{lty, []wfld{{2, wOf(int16(7))}, {50, bad}}, "err:other"},
			{lty, []wfld{{50, wList(false, thrift.STRUCT, good, bad)}, {2, wOf(int16(7))}}, "err:other"},
			{lty, []wfld{{50, wList(true, thrift.STRUCT, bad, good)}}, "err:other"},
			{lty, []wfld{{50, wMap(thrift.I8, thrift.STRUCT, wOf(int8(1)), bad)}}, "err:other"},
			{lty, []wfld{{50, wMap(thrift.STRUCT, thrift.I8, bad, wOf(int8(1)))}}, "err:other"},
			{lty, []wfld{{50, wStruct(wfld{1, wOf(int8(1))}, wfld{2, bad})}}, "err:other"},
			{lty, []wfld{{2, bad}}, "err:typeMismatch"},
			{lty, []wfld{{1, wList(false, thrift.LIST, wList(false, thrift.STRUCT, bad))}}, "err:typeMismatch"},
			{lty, []wfld{{1, wList(false, thrift.STRUCT, wStruct(wfld{1, wOf(int32(1))}, wfld{9, bad}))}}, "err:other"},
		}
		for ci, c := range wrap {
			if !full && (ci+d>>4)%4 != 0 {
				continue
			}
			b := newTB("c")
			for _, f := range c.fields {
				b.putField(f.id, f.v, h.Bool())
			}
			b.stop()
			h.DoRisky("thrift.decode", "c", "0", c.ty.String(), hx(b.bytes()), "err:other")
			h.DoRisky("thrift.decode", "c", "1", c.ty.String(), hx(b.bytes()), c.strict)
			h.Count("deltastop_cases", 2)
		}
	}
	// --- binary: type byte 0 with a non-zero id is the stop field
	for _, pn := range []string{"bs", "bn"} {
		p := thriftProto(pn)
		cs := chunks(pn)
		normal := thriftDecode(p, false, known, join(cs, 0, nil, []byte{0, 0, 0}))
		zero := thriftDecode(p, false, known, []byte{0, 0, 0})
		for k := 0; k < 6; k++ {
			if !full && k > 0 {
				break
			}
			id := 1 + h.Intn(0xFFFF)
			sx := []byte{0, byte(id >> 8), byte(id)}
			for _, strict := range []string{"0", "1"} {
				h.DoRisky("thrift.decode", pn, strict, known.String(), hx(join(cs, 0, nil, sx)), normal)
				h.DoRisky("thrift.decode", pn, strict, unknown.String(), hx(join(cs, 0, nil, sx)), "ok:t 1 i 0")
				h.DoRisky("thrift.decode", pn, strict, known.String(), hx(sx), zero)
				h.DoRisky("thrift.decode", pn, strict, known.String(), hx(join(cs, 0, sx, []byte{0, 0, 0})), "err:trailing")
				h.DoRisky("thrift.decode", pn, strict, known.String(), hx(join(cs, 1+h.Intn(2), sx, []byte{0, 0, 0})), "err:trailing")
				// nested: the inner struct ends at the odd stop, what follows belongs to the outer struct (no oracle)
				b := newTB(pn)
				b.putField(50, wRaw(thrift.STRUCT, join(cs, 1+h.Intn(2), sx, []byte{0, 0, 0})), true)
				b.putField(3, wOf(true), true)
				b.stop()
				h.DoRisky("thrift.decode", pn, strict, known.String(), hx(b.bytes()))
				b = newTB(pn)
				b.putField(50, wRaw(thrift.STRUCT, join(cs, 0, nil, sx)), true)
				b.putField(3, wOf(true), true)
				b.stop()
				h.DoRisky("thrift.decode", pn, strict, known.String(), hx(b.bytes()), "ok:t 3 i 0 s - b1")
				h.Count("deltastop_cases", 7)
			}
		}
	}
}

// deepWire: n nested containers, level i of the kind pattern[i mod len]: l list, s set, m map (nesting in the value),
// k map (nesting in the key), t struct (nesting in field 1); the innermost container holds `leaf`.
func deepWire(pn string, pattern string, n int, leaf wval) wval {
	typeOf := func(i int) thrift.Type {
		if i >= n {
			return leaf.t
		}
		switch pattern[i%len(pattern)] {
		case 'l':
			return thrift.LIST
		case 's':
			return thrift.SET
		case 'm', 'k':
			return thrift.MAP
		}
		return thrift.STRUCT
	}
	return wval{t: typeOf(0), put: func(b *tbuild) {
		sb := newTB(pn)
		var suffix [][]byte
		for i := 0; i < n; i++ {
			next := typeOf(i + 1)
			switch pattern[i%len(pattern)] {
			case 'l':
				b.w.WriteList(thrift.List{Size: 1, Type: next})
			case 's':
				b.w.WriteSet(thrift.Set{Size: 1, Type: next})
			case 'm':
				b.w.WriteMap(thrift.Map{Size: 1, Key: thrift.I8, Value: next})
				b.w.WriteInt8(1)
			case 'k':
				b.w.WriteMap(thrift.Map{Size: 1, Key: next, Value: thrift.I8})
				sb.buf.Reset()
				sb.w.WriteInt8(2)
				suffix = append(suffix, sb.bytes())
			default:
				b.w.WriteField(thrift.Field{ID: 1, Type: next, Delta: true})
				sb.buf.Reset()
				sb.stop()
				suffix = append(suffix, sb.bytes())
			}
		}
		leaf.put(b)
		for i := len(suffix) - 1; i >= 0; i-- {
			b.buf.Write(suffix[i])
		}
	}}
}

// thriftDepth: the decoder enters at most maxDepth = 10000 structs / lists / sets / maps (the outer struct counts)
func (h *H) thriftDepth() {
	const max = 10000
	leaf := wOf(int8(5))
	ab := &Ty{K: "st", Fields: []Field{tyF("A", 1, "", &Ty{K: "i32"}), tyF("X", 2, "", &Ty{K: "i32"}), tyF("B", 3, "", &Ty{K: "str"})}}
	withX := func(x *Ty) *Ty {
		return &Ty{K: "st", Fields: []Field{tyF("A", 1, "", &Ty{K: "i32"}), tyF("X", 2, "", x), tyF("B", 3, "", &Ty{K: "str"})}}
	}
	// message {A, <id>: v, B}; without v when v is nil
	msg := func(pn string, id int16, v *wval) []byte {
		b := newTB(pn)
		b.putField(1, wOf(int32(77)), true)
		if v != nil {
			b.putField(id, *v, h.Bool())
		}
		b.putField(3, wOf("end"), h.Bool())
		b.stop()
		return b.bytes()
	}
	// run: n nested containers under field `id` of ty; accepted iff n <= limit
	run := func(pn string, ty *Ty, id int16, pattern string, n, limit int, strict string, strictWant string) {
		w := deepWire(pn, pattern, n, leaf)
		in := msg(pn, id, &w)
		want := "err:other"
		if n <= limit {
			want = thriftDecode(thriftProto(pn), false, ty, msg(pn, id, nil))
		}
		if strict == "1" && strictWant != "" {
			want = strictWant
		}
		h.DoRisky("thrift.decode", pn, strict, ty.String(), hx(in), want)
		h.Count("depth_cases", 1)
		if h.Intn(8) == 0 { // the input cut somewhere
			h.DoRisky("thrift.decode", pn, strict, ty.String(), hx(in[:1+h.Intn(len(in)-1)]))
		}
	}
	// compact (one to three bytes a level): 9998 … 10002 around the limit 9999 … ; binary (five and more bytes a level): the
	// two values at the limit
	ns := func(pn string, limit int) []int {
		if pn == "c" {
			return []int{limit - 1, limit, limit + 1, limit + 2, limit + 3}
		}
		return []int{limit, limit + 1}
	}
	for _, pn := range thriftProtos {
		pats := []string{"l", "s", "m", "k", "t", "lsmkt", "tl", "km"}
		if pn != "c" {
			pats = []string{"l", "t"}
			if pn == "bn" {
				pats = []string{"s", "kmtl"}
			}
		}
		// unknown field: the k-th nested container is container number k+1
		for _, pat := range pats {
			for _, n := range ns(pn, max-1) {
				run(pn, ab, 9, pat, n, max-1, b01(h.Intn(4) == 0), "")
			}
		}
		// declared field of another type: skipped the same way (strict: reported before anything is skipped)
		for pi, pat := range pats {
			if pn == "c" && pi > 2 || pn != "c" && pi > 0 {
				break
			}
			for _, n := range ns(pn, max-1) {
				run(pn, ab, 2, pat, n, max-1, "0", "")
				if n == max {
					run(pn, ab, 2, pat, n, max-1, "1", "err:typeMismatch")
				}
			}
		}
		// elements of a declared list / set / map of another element type (skipValues)
		for _, c := range [][2]string{{"sl i32", "l"}, {"sl i32", "lt"}, {"map i32 st 0", "s"}, {"map i32 st 0", "sm"}, {"map i8 str", "m"}, {"map i8 str", "k"}, {"map i8 str", "kl"},
			{"sl sl i8", "lt"}} {
			if pn != "c" && (len(c[1]) > 1 || (c[1] == "l") != (pn == "bs") && (c[1] == "k") != (pn == "bn")) {
				continue
			}
			for _, n := range ns(pn, max-1) {
				run(pn, withX(parseTy(c[0])), 2, c[1], n, max-1, "0", "")
			}
			if pn == "c" {
				run(pn, withX(parseTy(c[0])), 2, c[1], max-1, max-1, "1", "err:typeMismatch")
			}
		}
		// the mismatch below two matching levels: X = [{1: <list left alone>}]
		for _, n := range ns(pn, max-1) {
			if pn == "bs" {
				break
			}
			ty := withX(parseTy("sl map i8 sl i8"))
			w := deepWire(pn, "lmlk", n, leaf)
			want := "err:other"
			if n <= max-1 {
				want = "ok:t 3 i 77 l 1 m 1 i 1 nil s 656e64"
			}
			h.DoRisky("thrift.decode", pn, "0", ty.String(), hx(msg(pn, 2, &w)), want)
			h.Count("depth_cases", 1)
		}
	}
	// top level values that are not structs: one container less has been entered
	for _, pn := range thriftProtos {
		for ci, c := range [][2]string{{"sl i32", "l"}, {"map i32 st 0", "s"}, {"map i8 str", "mk"}, {"sl sl sl i8", "lllt"}} {
			if pn == "bs" && ci != 0 || pn == "bn" && ci != 1 {
				continue
			}
			for _, n := range ns(pn, max) {
				w := deepWire(pn, c[1], n, leaf)
				b := newTB(pn)
				w.put(b)
				want := "err:other"
				if n <= max {
					want = "ok:nil"
					if c[0] == "sl sl sl i8" {
						want = "ok:l 1 l 1 nil"
					}
				}
				h.DoRisky("thrift.decode", pn, "0", c[0], hx(b.bytes()), want)
				h.Count("depth_cases", 1)
			}
		}
	}
	// declared types of depth D (lists, map values, structs, pointers — a pointer is not a level) around a struct with a
	// deep unknown field: D + 1 containers have been entered where the unknown field starts
	for _, pn := range thriftProtos {
		for _, dp := range []string{"l", "m", "t", "lpmt", "pl"} {
			for _, D := range []int{1, 2, 50, 200} {
				if pn != "c" && (D != 50 || (dp == "l") != (pn == "bs") && (dp == "lpmt") != (pn == "bn")) {
					continue
				}
				// the Go type and the matching wire pattern
				innerTy := &Ty{K: "st", Fields: []Field{tyF("A", 1, "", &Ty{K: "i8"})}}
				ty := innerTy
				levels := 0
				var wirePat []byte
				for i := D - 1; i >= 0; i-- {
					switch k := dp[i%len(dp)]; k {
					case 'l':
						ty = &Ty{K: "sl", Elem: ty}
					case 'm':
						ty = &Ty{K: "map", Key: &Ty{K: "i8"}, Elem: ty}
					case 't':
						ty = &Ty{K: "st", Fields: []Field{tyF("F", 1, "", ty)}}
					case 'p':
						ty = &Ty{K: "ptr", Elem: ty}
						continue
					}
					levels++
					wirePat = append([]byte{dp[i%len(dp)]}, wirePat...)
				}
				limit := max - 1 - levels
				for _, n := range []int{limit, limit + 1} {
					innerMsg := func(v *wval) wval {
						fs := []wfld{{1, wOf(int8(3))}}
						if v != nil {
							fs = append(fs, wfld{9, *v})
						}
						return wStruct(fs...)
					}
					enc := func(v *wval) []byte {
						b := newTB(pn)
						if levels == 0 {
							innerMsg(v).put(b)
						} else {
							deepWire(pn, string(wirePat), levels, innerMsg(v)).put(b)
						}
						return b.bytes()
					}
					w := deepWire(pn, []string{"l", "tl", "mk"}[h.Intn(3)], n, leaf)
					want := "err:other"
					if n <= limit {
						want = thriftDecode(thriftProto(pn), false, ty, enc(nil))
					}
					h.DoRisky("thrift.decode", pn, b01(h.Intn(4) == 0), ty.String(), hx(enc(&w)), want)
					h.Count("depth_cases", 1)
				}
			}
		}
	}
	// a declared field at the limit: X [](9999 / 10000 times)int8 inside the struct, all levels on the wire, the
	// innermost list with two elements
	for _, pn := range thriftProtos {
		for _, D := range []int{max - 2, max - 1, max} {
			if pn == "bs" && D != max || pn == "bn" && D != max-1 {
				continue
			}
			x := &Ty{K: "i8"}
			for i := 0; i < D; i++ {
				x = &Ty{K: "sl", Elem: x}
			}
			ty := withX(x)
			w := deepWire(pn, "l", D-1, wList(false, thrift.I8, wOf(int8(1)), wOf(int8(2))))
			for _, strict := range []string{"0", "1"} {
				if D <= max-1 {
					h.DoRisky("thrift.decode", pn, strict, ty.String(), hx(msg(pn, 2, &w))) // ok: model correspondence
				} else {
					h.DoRisky("thrift.decode", pn, strict, ty.String(), hx(msg(pn, 2, &w)), "err:other")
				}
				h.Count("depth_cases", 1)
			}
		}
	}
	// a map / set / struct / pointer to struct below 9999 or 10000 declared lists: it is container number 10000 (entered) or
	// 10001 (refused — but an empty set or map returns before it is entered, and skipped scalars are no level)
	for _, pn := range thriftProtos {
		for _, D := range []int{max - 1, max} {
			if pn == "bs" && D != max || pn == "bn" && D != max-1 {
				continue
			}
			pS := "st 1 f A 7468726966743a223122 0 i8"
			inners := []struct {
				ty    string
				wire  wval
				atMax string // oracle for D = max ("" none)
			}{
				{"map i8 i8", wOf(map[int8]int8{1: 2}), "err:other"},
				{"map i8 i8", wOf(map[int8]int8{}), ""},
				{"map i8 i8", wOf(map[int8]string{1: "x"}), ""},
				{"map i8 i8", wOf(map[int8][]int8{1: {1}}), "err:other"},
				{"map i8 st 0", wOf(map[int8]struct{}{1: {}}), "err:other"},
				{"map i8 st 0", wOf(map[int8]struct{}{}), ""},
				{"map i8 st 0", wOf(map[int16]struct{}{1: {}, 2: {}}), ""},
				{"map i8 st 0", wList(true, thrift.STRUCT, wStruct()), "err:other"},
				{pS, wOf(mmP{4}), "err:other"},
				{pS, wStruct(), "err:other"},
				{"ptr ptr " + pS, wStruct(wfld{1, wOf(int8(4))}, wfld{2, wOf(true)}), "err:other"},
				{"sl i8", wOf([]int16{1, 2}), ""},
				{"sl i8", wOf([][]int8{{1}}), "err:other"},
				{"sl i8", wOf([]int8{}), "err:other"},
				{"str", wOf("leaf"), ""},
			}
			for _, in := range inners {
				ty := parseTy(in.ty)
				for i := 0; i < D; i++ {
					ty = &Ty{K: "sl", Elem: ty}
				}
				b := newTB(pn)
				deepWire(pn, "l", D, in.wire).put(b)
				if D == max && in.atMax != "" {
					h.DoRisky("thrift.decode", pn, "0", ty.String(), hx(b.bytes()), in.atMax)
				} else {
					h.DoRisky("thrift.decode", pn, "0", ty.String(), hx(b.bytes()))
				}
				h.Count("depth_cases", 1)
			}
		}
	}
	// declared types that are themselves at the limit: []…[]int8 with 9999 / 10000 / 10001 levels
	for _, pn := range thriftProtos {
		for _, D := range []int{max - 1, max, max + 1} {
			if pn != "c" && D != max+1 {
				continue
			}
			ty := &Ty{K: "i8"}
			for i := 0; i < D; i++ {
				ty = &Ty{K: "sl", Elem: ty}
			}
			for _, n := range []int{max, max + 1} {
				if n > D {
					continue
				}
				// n nested lists, the innermost one empty (element type: list, or i8 when all D levels are there)
				var in []byte
				b := newTB(pn)
				if n == D {
					wList(false, thrift.LIST, deepWire(pn, "l", n-2, wList(false, thrift.I8))).put(b)
				} else {
					wList(false, thrift.LIST, deepWire(pn, "l", n-2, wList(false, thrift.LIST))).put(b)
				}
				in = b.bytes()
				if n <= max {
					h.DoRisky("thrift.decode", pn, "0", ty.String(), hx(in)) // ok: a value 10000 levels deep
				} else {
					h.DoRisky("thrift.decode", pn, "0", ty.String(), hx(in), "err:other")
				}
				h.Count("depth_cases", 1)
			}
		}
	}
}

var msgSeqs = []int64{0, 1, 127, 128, 16383, 16384, 2147483647, -1, -2, -128, -2147483648}

func thriftWriteMessage(pn string, mt int, name []byte, seq int64) []byte {
	var buf bytes.Buffer
	thriftProto(pn).NewWriter(&buf).WriteMessage(thrift.Message{Type: thrift.MessageType(mt), Name: string(name), SeqID: int32(seq)})
	return buf.Bytes()
}

// thriftMessageRoundTrip: ReadMessage(WriteMessage(m)) == m, nothing left unread; with bytes behind it they stay unread
func (h *H) thriftMessageRoundTrip(full bool) {
	for _, pn := range thriftProtos {
		for _, nl := range []int{0, 1, 127, 128, 300} {
			name := make([]byte, nl)
			for i := range name {
				name[i] = byte('a' + h.Intn(26))
			}
			seqs := append(append([]int64{}, msgSeqs...), int64(int32(h.U64())), int64(int32(h.U64())>>uint(h.Intn(31))))
			for _, seq := range seqs {
				for mt := 0; mt < 4; mt++ {
					if !full && h.Intn(4) != 0 {
						continue
					}
					b := thriftWriteMessage(pn, mt, name, seq)
					ss := strconv.FormatInt(seq, 10)
					if full {
						h.Do("thrift.message", pn, strconv.Itoa(mt), hx(name), ss)
					}
					h.Do("thrift.readmessage", pn, hx(b), fmt.Sprintf("ok:%d %s %d 0", mt, hx(name), seq))
					k := 1 + h.Intn(4)
					h.Do("thrift.readmessage", pn, hx(append(append([]byte{}, b...), h.Bytes(k)...)), fmt.Sprintf("ok:%d %s %d %d", mt, hx(name), seq, k))
					h.Count("message_roundtrips", 1)
					if !full || mt != int(uint64(seq)%4) {
						continue
					}
					// every truncation (long names: the first 14 and the last 10 offsets)
					for n := 0; n < len(b); n++ {
						if n >= 14 && n < len(b)-10 {
							continue
						}
						o := "err:unexpectedEof"
						if n == 0 {
							o = "err:eof"
						}
						h.Do("thrift.readmessage", pn, hx(b[:n]), o)
					}
				}
			}
		}
	}
}

// thriftWriterMsg: the two forms of a compact field header (all three writers), hand-made message headers
func (h *H) thriftWriterMsg() {
	for _, pn := range thriftProtos {
		for tc := 0; tc <= 12; tc++ {
			for _, id := range []int{-32768, -1000, -16, -15, -1, 0, 1, 2, 14, 15, 16, 17, 127, 128, 1000, 32767} {
				for _, d := range []string{"0", "1"} {
					h.Do("thrift.wfield", pn, strconv.Itoa(tc), strconv.Itoa(id), d)
				}
			}
		}
	}
	h.thriftMessageRoundTrip(true)
	cat := func(bs ...[]byte) []byte {
		var out []byte
		for _, b := range bs {
			out = append(out, b...)
		}
		return out
	}
	rep := func(b byte, n int) []byte { return bytes.Repeat([]byte{b}, n) }
	// compact: 0x82, type, seq id varint (uint32: a negative id is its two's complement), name
	type sv struct {
		b    []byte
		want string // seq id, or an error class
	}
	seqVarints := []sv{
		{[]byte{0xff, 0xff, 0xff, 0xff, 0x0f}, "-1"},
		{[]byte{0x80, 0x80, 0x80, 0x80, 0x10}, "err:other"}, // 2^32
		{[]byte{0xff, 0xff, 0xff, 0xff, 0x1f}, "err:other"},
		{[]byte{0x80, 0x80, 0x80, 0x80, 0x08}, "-2147483648"},
		{[]byte{0xff, 0xff, 0xff, 0xff, 0x07}, "2147483647"},
		{[]byte{0xfe, 0xff, 0xff, 0xff, 0x0f}, "-2"},
		{[]byte{0x00}, "0"},
		{[]byte{0x80, 0x00}, "0"}, // overlong forms are read like any varint
		{[]byte{0x81, 0x80, 0x80, 0x00}, "1"},
		{cat(rep(0x80, 9), []byte{0x00}), "0"},
		{cat([]byte{0xff, 0xff, 0xff, 0xff, 0x8f}, rep(0x80, 4), []byte{0x00}), "-1"},
		{cat(rep(0xff, 9), []byte{0x01}), "err:other"}, // 2^64-1
		{cat(rep(0x80, 9), []byte{0x01}), "err:other"}, // 2^63
		{cat(rep(0x80, 9), []byte{0x02}), "err:other"}, // overflows 64 bits
		{cat(rep(0x80, 10), []byte{0x00}), "err:other"},
		{cat(rep(0xff, 10), []byte{0x7f}), "err:other"},
		{[]byte{0x80}, "err:unexpectedEof"},
		{[]byte{0xff, 0xff}, "err:unexpectedEof"},
		{rep(0x80, 9), "err:unexpectedEof"},
	}
	names := [][2][]byte{{{0}, {}}, {{2, 'a', 'b'}, []byte("ab")}, {cat([]byte{0x82, 0x00}, []byte("xy")), []byte("xy")}}
	for _, s := range seqVarints {
		for ni, nm := range names {
			for _, tb := range []byte{0, 1, 2, 3, 0x21, 0xff} {
				if tb > 3 && ni != 1 {
					continue
				}
				in := cat([]byte{0x82, tb}, s.b, nm[0])
				want := s.want
				if !strings.HasPrefix(want, "err:") {
					want = fmt.Sprintf("ok:%d %s %s 0", tb&7, hx(nm[1]), s.want)
				} else if want == "err:unexpectedEof" {
					in = cat([]byte{0x82, tb}, s.b)
				}
				h.Do("thrift.readmessage", "c", hx(in), want)
				if !strings.HasPrefix(want, "err:") { // every truncation of the accepted ones
					for n := 0; n < len(in); n++ {
						o := "err:unexpectedEof"
						if n == 0 {
							o = "err:eof"
						}
						h.Do("thrift.readmessage", "c", hx(in[:n]), o)
					}
				}
			}
		}
	}
	for _, in := range [][]byte{{}, {0x80}, {0x00}, {0x83, 1, 0, 0}, {0x02, 1, 0, 0}, {0x80, 1, 0, 0, 0, 0, 0, 0, 0, 0, 0, 0}} {
		o := "err:other"
		if len(in) == 0 {
			o = "err:eof"
		}
		h.Do("thrift.readmessage", "c", hx(in), o)
	}
	// name lengths: beyond the int32 range (an error before anything is allocated), longer than the input
	h.Do("thrift.readmessage", "c", hx([]byte{0x82, 1, 5, 0xff, 0xff, 0xff, 0xff, 0x0f}), "err:other")
	h.Do("thrift.readmessage", "c", hx([]byte{0x82, 1, 5, 0x80, 0x80, 0x80, 0x80, 0x10}), "err:other")
	h.Do("thrift.readmessage", "c", hx([]byte{0x82, 1, 5, 5, 'a', 'b'}), "err:unexpectedEof")
	h.Do("thrift.readmessage", "c", hx([]byte{0x82, 1, 5, 0x80, 0x80, 0x04}), "err:unexpectedEof") // 64 KiB announced
	h.Do("thrift.readmessage", "c", hx([]byte{0x82, 1, 5, 0x80}), "err:unexpectedEof")
	// binary: the reader tells the strict form from the non-strict one by the first bit, whatever the protocol setting
	be4 := func(n uint32) []byte { return []byte{byte(n >> 24), byte(n >> 16), byte(n >> 8), byte(n)} }
	for _, pn := range []string{"bs", "bn"} {
		for _, nm := range [][]byte{{}, []byte("p"), []byte("ping"), bytes.Repeat([]byte("n"), 40)} {
			for _, seq := range []uint32{0, 1, 0x7fffffff, 0xffffffff, 0x80000000, uint32(h.U64())} {
				for _, ver := range [][]byte{{0x80, 0, 0}, {0x80, 1, 0}, {0xff, 0xff, 0xff}, {0x81, 0x23, 0x45}} {
					tb := byte(h.U64())
					for _, nonStrict := range []bool{false, true} {
						var in []byte
						if nonStrict {
							if ver[1] != 0 {
								continue
							}
							in = cat(be4(uint32(len(nm))), nm, []byte{tb}, be4(seq))
						} else {
							in = cat(ver, []byte{tb}, be4(uint32(len(nm))), nm, be4(seq))
						}
						h.Do("thrift.readmessage", pn, hx(in), fmt.Sprintf("ok:%d %s %d 0", tb&7, hx(nm), int32(seq)))
						for n := 0; n < len(in); n++ { // the input ends before / inside the sequence id, the name, the header
							o := "err:unexpectedEof"
							if n == 0 {
								o = "err:eof"
							}
							h.Do("thrift.readmessage", pn, hx(in[:n]), o)
						}
					}
				}
			}
		}
		// name lengths: negative (strict form), larger than the input (64 KiB announced)
		h.Do("thrift.readmessage", pn, hx(cat([]byte{0x80, 1, 0, 1}, be4(0xffffffff), []byte("abcd"))), "err:other")
		h.Do("thrift.readmessage", pn, hx(cat([]byte{0x80, 1, 0, 1}, be4(0x80000000))), "err:other")
		h.Do("thrift.readmessage", pn, hx(cat([]byte{0x80, 1, 0, 1}, be4(0x10000), []byte("abcd"))), "err:unexpectedEof")
		h.Do("thrift.readmessage", pn, hx(cat(be4(0x10000), []byte("abcd"))), "err:unexpectedEof")
		h.Do("thrift.readmessage", pn, hx(cat(be4(0x10000))), "err:unexpectedEof")
		h.Do("thrift.readmessage", pn, hx(cat(be4(5), []byte("abcde"))), "err:unexpectedEof")
		h.Do("thrift.readmessage", pn, hx(cat(be4(5), []byte("abcde"), []byte{1, 0, 0})), "err:unexpectedEof")
	}
}
