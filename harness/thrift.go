package main

import (
	"bytes"
	"errors"
	"fmt"
	"io"
	"reflect"
	"runtime"
	"strconv"
	"strings"

	"github.com/segmentio/encoding/thrift"
)

func init() {
	oversize := func(i int) func([]string) string {
		return func(a []string) string {
			if len(a) > i && declaresOversize(unhx(a[i])) {
				return "thriftWireSizeAlloc"
			}
			return ""
		}
	}
	fatalClass["thrift.decode"] = oversize(3)
	fatalClass["thrift.alloc"] = oversize(2)
	registry["C04"] = runC04
	registry["C08"] = runC08
	registry["C13"] = runC13

	ops["thrift.marshal"] = func(a []string) (string, string, string) {
		p := thriftProto(a[0])
		t := parseTy(a[1])
		v := parseVal(t, a[2])
		b, err := thrift.Marshal(p, v.Interface())
		if err != nil {
			return "err", "-", ""
		}
		return "ok:" + hx(b), "-", ""
	}
	ops["thrift.marshalx"] = ops["thrift.marshal"]
	ops["thrift.roundtrip"] = func(a []string) (string, string, string) {
		p := thriftProto(a[0])
		t := parseTy(a[1])
		v := parseVal(t, a[2])
		b, err := thrift.Marshal(p, v.Interface())
		if err != nil {
			return "marshal-err", "ok:" + showVal(t, v, true), ""
		}
		return thriftDecode(p, false, t, b), "ok:" + showVal(t, v, true), ""
	}
	ops["thrift.decode"] = func(a []string) (string, string, string) {
		o := "-"
		if len(a) > 4 {
			o = a[4]
		}
		in := unhx(a[3])
		i := thriftDecode(thriftProto(a[0]), a[1] == "1", parseTy(a[2]), in)
		if o == "-" && i == "err:eof" && len(in) > 0 {
			// the property's own rule: plain io.EOF is the answer for EMPTY input only; input that ends inside a value is an
			// unexpected EOF
			o = "err:unexpectedEof"
		}
		return i, o, ""
	}
	// reuse: an Encoder/Decoder that served another protocol before, then Reset, behaves like a fresh one
	ops["thrift.reset"] = func(a []string) (string, string, string) {
		p1, p2 := thriftProto(a[0]), thriftProto(a[1])
		t := parseTy(a[2])
		v := parseVal(t, a[3])
		fresh, err := thrift.Marshal(p2, v.Interface())
		if err != nil {
			return "marshal-err", "-", ""
		}
		var b1, b2 bytes.Buffer
		enc := thrift.NewEncoder(p1.NewWriter(&b1))
		enc.Encode(v.Interface())
		enc.Reset(p2.NewWriter(&b2))
		if err := enc.Encode(v.Interface()); err != nil {
			return "reset-encode-err", "same", ""
		}
		res := "same"
		if !hasMultiMap(t, v) && !bytes.Equal(b2.Bytes(), fresh) {
			res = "enc-differs:" + hx(b2.Bytes())
		}
		// decoder: first decode a p1 stream, then Reset onto the p2 stream
		tgt1 := reflect.New(t.Reflect())
		dec := thrift.NewDecoder(p1.NewReader(bytes.NewReader(b1.Bytes())))
		dec.Decode(tgt1.Interface())
		tgt2 := reflect.New(t.Reflect())
		dec.Reset(p2.NewReader(bytes.NewReader(fresh)))
		err = dec.Decode(tgt2.Interface())
		want := thriftDecode(p2, false, t, fresh)
		got := "err:other"
		if err == nil {
			got = "ok:" + showVal(t, tgt2.Elem(), true)
		}
		if strings.HasPrefix(want, "ok:") && got != want {
			res += ";dec-differs"
		}
		return res, "same", ""
	}
	// the two protocols decode each other's logical content to the same value
	ops["thrift.cross"] = func(a []string) (string, string, string) {
		t := parseTy(a[0])
		v := parseVal(t, a[1])
		var outs []string
		for _, pn := range []string{"bs", "bn", "c"} {
			p := thriftProto(pn)
			b, err := thrift.Marshal(p, v.Interface())
			if err != nil {
				return "marshal-err", "equal", ""
			}
			outs = append(outs, thriftDecode(p, false, t, b))
		}
		if outs[0] == outs[1] && outs[1] == outs[2] {
			return "equal", "equal", ""
		}
		return "differ:" + strings.Join(outs, " | "), "equal", ""
	}
	ops["thrift.message"] = func(a []string) (string, string, string) {
		p := thriftProto(a[0])
		var buf bytes.Buffer
		w := p.NewWriter(&buf)
		seq, _ := strconv.ParseInt(a[3], 10, 32)
		err := w.WriteMessage(thrift.Message{Type: thrift.MessageType(atoi(a[1])), Name: string(unhx(a[2])), SeqID: int32(seq)})
		if err != nil {
			return "err", "-", ""
		}
		// and read it back
		m, err := p.NewReader(bytes.NewReader(buf.Bytes())).ReadMessage()
		if seq >= 0 && (err != nil || int(m.Type) != atoi(a[1]) || m.Name != string(unhx(a[2])) || int64(m.SeqID) != seq) {
			return hx(buf.Bytes()) + ";readback-differs", "-", ""
		}
		return hx(buf.Bytes()), "-", ""
	}
	ops["thrift.alloc"] = func(a []string) (string, string, string) {
		p := thriftProto(a[0])
		t := parseTy(a[1])
		b := unhx(a[2])
		tgt := reflect.New(t.Reflect())
		thrift.Unmarshal(p, b, tgt.Interface())
		tgt = reflect.New(t.Reflect())
		var m0, m1 runtime.MemStats
		runtime.ReadMemStats(&m0)
		thrift.Unmarshal(p, b, tgt.Interface())
		runtime.ReadMemStats(&m1)
		alloc := m1.TotalAlloc - m0.TotalAlloc
		bound := uint64(len(b))*64*uint64(t.Reflect().Size()+64) + 1<<16
		k := ""
		if declaresOversize(b) {
			k = "thriftWireSizeAlloc"
		}
		if alloc <= bound {
			return "bounded", "bounded", k
		}
		return fmt.Sprintf("alloc=%d>bound=%d", alloc, bound), "bounded", k
	}
}

// declaresOversize: some 4-byte big-endian word or varint in b declares a count larger than len(b) (generator-side
// approximation used only to label the known allocation finding).
func declaresOversize(b []byte) bool {
	for i := 0; i+4 <= len(b); i++ {
		n := uint32(b[i])<<24 | uint32(b[i+1])<<16 | uint32(b[i+2])<<8 | uint32(b[i+3])
		if n > uint32(len(b)) && n <= 0x7fffffff {
			return true
		}
	}
	for i := 0; i < len(b); i++ {
		if v, n := uvarint(b[i:]); n > 0 && v > uint64(len(b)) && v <= 0x7fffffff {
			return true
		}
	}
	return false
}

func thriftProto(s string) thrift.Protocol {
	switch s {
	case "bs":
		return &thrift.BinaryProtocol{}
	case "bn":
		return &thrift.BinaryProtocol{NonStrict: true}
	case "c":
		return &thrift.CompactProtocol{}
	}
	panic("bad proto " + s)
}

func thriftErrClass(err error) string {
	var mf *thrift.MissingField
	var tm *thrift.TypeMismatch
	switch {
	case errors.As(err, &mf):
		return "err:missingField"
	case errors.As(err, &tm):
		return "err:typeMismatch"
	case errors.Is(err, io.ErrUnexpectedEOF):
		return "err:unexpectedEof"
	case errors.Is(err, io.EOF):
		return "err:eof"
	case strings.Contains(err.Error(), "trailing bytes"):
		return "err:trailing"
	}
	return "err:other"
}

func thriftDecode(p thrift.Protocol, strict bool, t *Ty, b []byte) string {
	tgt := reflect.New(t.Reflect())
	br := bytes.NewReader(b)
	dec := thrift.NewDecoder(p.NewReader(br))
	dec.SetStrict(strict)
	if err := dec.Decode(tgt.Interface()); err != nil {
		return thriftErrClass(err)
	}
	if br.Len() != 0 {
		return "err:trailing"
	}
	// Unmarshal itself (non-strict) must agree with the Decoder path
	if !strict {
		t2 := reflect.New(t.Reflect())
		if err := thrift.Unmarshal(p, b, t2.Interface()); err != nil || showVal(t, t2.Elem(), true) != showVal(t, tgt.Elem(), true) {
			return "unmarshal-disagrees-with-decoder"
		}
	}
	return "ok:" + showVal(t, tgt.Elem(), true)
}

// ---- type generator ---------------------------------------------------------------------------

var thriftScalars = []string{"bool", "i8", "i16", "i32", "i64", "int", "f64", "str", "bytes"}

func (h *H) genThriftElem(depth int) *Ty {
	switch r := h.Intn(12); {
	case r < 7 || depth >= 3:
		return &Ty{K: thriftScalars[h.Intn(len(thriftScalars))]}
	case r < 9:
		return h.genThriftStruct(depth + 1)
	case r < 10:
		return &Ty{K: "sl", Elem: h.genThriftElem(depth + 1)}
	case r < 11:
		return &Ty{K: "ptr", Elem: h.genThriftElem(depth + 1)}
	default:
		return h.genThriftMap(depth + 1)
	}
}

func (h *H) genThriftMap(depth int) *Ty {
	keys := []string{"str", "i8", "i16", "i32", "i64", "int", "bool"}
	k := &Ty{K: keys[h.Intn(len(keys))]}
	if h.Intn(4) == 0 {
		return &Ty{K: "map", Key: k, Elem: &Ty{K: "st"}} // set
	}
	return &Ty{K: "map", Key: k, Elem: h.genThriftElem(depth + 1)}
}

func (h *H) genThriftStruct(depth int) *Ty {
	n := h.Intn(6)
	if depth == 0 {
		n = 1 + h.Intn(7)
	}
	if h.Intn(30) == 0 {
		n = 20 + h.Intn(50) // > 64 fields happens
	}
	t := &Ty{K: "st"}
	used := map[int]bool{}
	for i := 0; i < n; i++ {
		ft := h.genThriftElem(depth)
		var id int
		for {
			switch h.Intn(8) {
			case 0:
				id = []int{15, 16, 17, 63, 64, 65, 66, 127, 128, 200, 255, 256, 1000, 32767}[h.Intn(14)]
			case 1:
				id = 1 + h.Intn(32767)
			default:
				id = 1 + h.Intn(40)
			}
			if !used[id] {
				break
			}
		}
		used[id] = true
		tag := strconv.Itoa(id)
		switch h.Intn(8) {
		case 0:
			tag += ",required"
		case 1:
			tag += ",optional"
		case 2:
			if b := baseOf(ft); (b.K == "i8" || b.K == "i16" || b.K == "i32" || b.K == "i64" || b.K == "int") && ft.K != "ptr" {
				tag += ",enum"
			}
		}
		t.Fields = append(t.Fields, Field{Name: fmt.Sprintf("F%d", i), Tag: `thrift:"` + tag + `"`, T: ft})
	}
	return t
}

func (h *H) genThriftCase() (*Ty, string) {
	for {
		t := h.genThriftStruct(0)
		v := h.genVal(t, 0)
		h.clampEnums(t, v)
		h.setRequired(t, v)
		if hasMultiMap(t, v) && nilPtrInCollection(v) {
			continue
		}
		return t, showVal(t, v, false)
	}
}

// enum fields are written as i32: keep their values in int32 range (out-of-range enums are not a thrift value)
func (h *H) clampEnums(t *Ty, v reflect.Value) {
	switch v.Kind() {
	case reflect.Struct:
		tt := unnamed(t)
		for i, f := range tt.Fields {
			if strings.Contains(f.Tag, ",enum") && v.Field(i).CanInt() {
				v.Field(i).SetInt(int64(int32(v.Field(i).Int())))
				if v.Field(i).Int() != int64(int32(v.Field(i).Int())) { // narrower kinds
					v.Field(i).SetInt(0)
				}
			}
			h.clampEnums(f.T, v.Field(i))
		}
	case reflect.Ptr:
		if !v.IsNil() {
			h.clampEnums(unnamed(t).Elem, v.Elem())
		}
	case reflect.Slice:
		if !isByteSeq(t) {
			for i := 0; i < v.Len(); i++ {
				h.clampEnums(unnamed(t).Elem, v.Index(i))
			}
		}
	}
}

// "whenever v's required fields are set": a nil pointer is not a set field
func (h *H) setRequired(t *Ty, v reflect.Value) {
	switch v.Kind() {
	case reflect.Struct:
		tt := unnamed(t)
		for i, f := range tt.Fields {
			fv := v.Field(i)
			if strings.Contains(f.Tag, ",required") {
				for x, xt := fv, f.T; x.Kind() == reflect.Ptr; x, xt = x.Elem(), unnamed(xt).Elem {
					if x.IsNil() {
						x.Set(reflect.New(x.Type().Elem()))
					}
				}
			}
			h.setRequired(f.T, fv)
		}
	case reflect.Ptr:
		if !v.IsNil() {
			h.setRequired(unnamed(t).Elem, v.Elem())
		}
	case reflect.Slice:
		if !isByteSeq(t) {
			for i := 0; i < v.Len(); i++ {
				h.setRequired(unnamed(t).Elem, v.Index(i))
			}
		}
	case reflect.Map:
		// map values are not addressable: rebuild entries whose value needs fixing is not necessary — generated
		// map values that are structs with required nil pointers are replaced by their zero-with-required-set form
		it := v.MapRange()
		for it.Next() {
			e := reflect.New(v.Type().Elem()).Elem()
			e.Set(it.Value())
			h.setRequired(unnamed(t).Elem, e)
			v.SetMapIndex(it.Key(), e)
		}
	}
}

var thriftProtos = []string{"bs", "bn", "c"}

// ---- C04 -----------------------------------------------------------------------------------------

func runC04(h *H) {
	N := 700
	if h.Thorough() {
		N = 12000
	}
	for i := 0; i < 40; i++ {
		for _, sh := range []string{"value", "pointer", "single", "wide"} {
			h.DoRisky("thrift.embedded", sh, strconv.Itoa(i))
		}
	}
	for i := 0; i < N; i++ {
		t, val := h.genThriftCase()
		ts := t.String()
		v := parseVal(t, val)
		for _, pn := range thriftProtos {
			h.DoRisky("thrift.roundtrip", pn, ts, val)
			if !hasMultiMap(t, v) {
				h.DoRisky("thrift.marshal", pn, ts, val)
			}
		}
		h.DoRisky("thrift.cross", ts, val)
		if i%3 == 0 {
			h.DoRisky("thrift.reset", thriftProtos[h.Intn(3)], thriftProtos[h.Intn(3)], ts, val)
		}
	}
}

// ---- C13 -----------------------------------------------------------------------------------------

func runC13(h *H) {
	N := 700
	if h.Thorough() {
		N = 12000
	}
	for i := 0; i < N; i++ {
		t, val := h.genThriftCase()
		ts := t.String()
		v := parseVal(t, val)
		want := "ok:" + showVal(t, v, true)
		for _, pn := range thriftProtos {
			op := "thrift.marshal"
			if hasMultiMap(t, v) {
				op = "thrift.marshalx"
			}
			im, _ := h.DoRisky(op, pn, ts, val)
			if pn == "c" && strings.HasPrefix(im, "ok:") {
				// every specification-conformant encoding is accepted: long forms where a short form exists
				b := unhx(im[3:])
				if alt, ok := compactLongForms(h, b); ok && !bytes.Equal(alt, b) {
					h.DoRisky("thrift.decode", pn, "0", ts, hx(alt), want)
					h.Count("longform_cases", 1)
				}
			}
		}
	}
	// message headers
	for _, pn := range thriftProtos {
		for mt := 0; mt < 4; mt++ {
			for _, name := range []string{"-", "70696e67", hx(bytes.Repeat([]byte("n"), 130))} {
				for _, seq := range []string{"0", "1", "127", "128", "2147483647", "-1"} {
					h.Do("thrift.message", pn, strconv.Itoa(mt), name, seq)
				}
			}
		}
	}
}

// compactLongForms re-encodes a compact-protocol struct stream using long forms for field headers and list headers
// (a generic, type-agnostic walk of the compact encoding).
func compactLongForms(h *H, b []byte) ([]byte, bool) {
	var out []byte
	pos := 0
	var walkStruct func() bool
	var walkValue func(t byte) bool
	fail := false
	need := func(n int) bool {
		if pos+n > len(b) {
			fail = true
			return false
		}
		return true
	}
	copyVarint := func() (uint64, bool) {
		v, n := uvarint(b[pos:])
		if n <= 0 {
			fail = true
			return 0, false
		}
		out = append(out, b[pos:pos+n]...)
		pos += n
		return v, true
	}
	zz := func(i int64) []byte { return putUvarint(uint64((i<<1)^(i>>63)), 0) }
	walkValue = func(t byte) bool {
		switch t {
		case 1, 2, 3: // bool element / i8: one byte
			if !need(1) {
				return false
			}
			out = append(out, b[pos])
			pos++
		case 4, 5, 6:
			if _, ok := copyVarint(); !ok {
				return false
			}
		case 7:
			if !need(8) {
				return false
			}
			out = append(out, b[pos:pos+8]...)
			pos += 8
		case 8:
			n, ok := copyVarint()
			if !ok || !need(int(n)) {
				return false
			}
			out = append(out, b[pos:pos+int(n)]...)
			pos += int(n)
		case 9, 10:
			if !need(1) {
				return false
			}
			hd := b[pos]
			pos++
			size := uint64(hd >> 4)
			et := hd & 0xf
			if size == 15 {
				v, n := uvarint(b[pos:])
				if n <= 0 {
					fail = true
					return false
				}
				size = v
				pos += n
			}
			if h.Bool() || size >= 15 {
				out = append(out, 0xF0|et)
				out = append(out, putUvarint(size, 0)...)
			} else {
				out = append(out, byte(size<<4)|et)
			}
			for i := uint64(0); i < size; i++ {
				if !walkValue(et) {
					return false
				}
			}
		case 11:
			n, ok := copyVarint()
			if !ok {
				return false
			}
			if n == 0 {
				return true
			}
			if !need(1) {
				return false
			}
			kv := b[pos]
			out = append(out, kv)
			pos++
			for i := uint64(0); i < n; i++ {
				if !walkValue(kv>>4) || !walkValue(kv&0xf) {
					return false
				}
			}
		case 12:
			return walkStruct()
		default:
			fail = true
			return false
		}
		return true
	}
	walkStruct = func() bool {
		last := int64(0)
		for {
			if !need(1) {
				return false
			}
			hd := b[pos]
			pos++
			if hd == 0 {
				out = append(out, 0)
				return true
			}
			var id int64
			t := hd & 0xf
			if hd>>4 != 0 {
				id = last + int64(hd>>4)
			} else {
				v, n := uvarint(b[pos:])
				if n <= 0 {
					fail = true
					return false
				}
				pos += n
				id = int64(v>>1) ^ -int64(v&1)
			}
			if h.Intn(3) != 0 || id-last > 15 || id-last <= 0 {
				out = append(out, t) // long form: type byte then zig-zag id
				out = append(out, zz(id)...)
			} else {
				out = append(out, byte(id-last)<<4|t)
			}
			last = id
			if t != 1 && t != 2 { // bool fields carry no value
				if !walkValue(t) {
					return false
				}
			}
		}
	}
	ok := walkStruct()
	return out, ok && !fail && pos == len(b)
}

// ---- C08 -----------------------------------------------------------------------------------------

func (h *H) thriftUnknownField(pn string, depth int) []byte {
	// a well-formed field with an id outside the generator's range, encoded through the real writer
	type inner struct {
		A int32             `thrift:"1"`
		B string            `thrift:"2"`
		C []int16           `thrift:"3"`
		D map[string]bool   `thrift:"4"`
		E bool              `thrift:"5"`
		F map[int8]struct{} `thrift:"6"`
	}
	var buf bytes.Buffer
	p := thriftProto(pn)
	w := p.NewWriter(&buf)
	enc := thrift.NewEncoder(w)
	id := int16(20000 + h.Intn(10000))
	switch h.Intn(14) {
	case 9: // collections of bools: in the compact protocol only a bool FIELD lives in its header, elements are bytes
		w.WriteField(thrift.Field{ID: id, Type: thrift.LIST})
		l := make([]bool, 1+h.Intn(5))
		for i := range l {
			l[i] = h.Bool()
		}
		enc.Encode(l)
	case 10:
		w.WriteField(thrift.Field{ID: id, Type: thrift.SET})
		enc.Encode(map[bool]struct{}{h.Bool(): {}})
	case 11:
		w.WriteField(thrift.Field{ID: id, Type: thrift.MAP})
		enc.Encode(map[string]bool{"a": h.Bool(), "bb": true, "c": false})
	case 12:
		w.WriteField(thrift.Field{ID: id, Type: thrift.LIST})
		enc.Encode([][]bool{{true, false}, {}, {h.Bool()}})
	case 13:
		w.WriteField(thrift.Field{ID: id, Type: thrift.MAP})
		enc.Encode(map[bool][]bool{true: {false, true}, false: nil})
	case 0:
		w.WriteField(thrift.Field{ID: id, Type: thrift.I64})
		w.WriteInt64(int64(h.U64()))
	case 1:
		w.WriteField(thrift.Field{ID: id, Type: thrift.BINARY})
		w.WriteBytes(h.Bytes(h.Intn(40)))
	case 2:
		w.WriteField(thrift.Field{ID: id, Type: thrift.STRUCT})
		enc.Encode(inner{A: 5, B: "x", C: []int16{1, 2, 3}, D: map[string]bool{"k": true}, E: true, F: map[int8]struct{}{3: {}}})
	case 3:
		w.WriteField(thrift.Field{ID: id, Type: thrift.LIST})
		enc.Encode([]inner{{A: 1}, {B: "yy", E: true}})
	case 4:
		w.WriteField(thrift.Field{ID: id, Type: thrift.MAP})
		enc.Encode(map[int32][]string{1: {"a", "b"}, 2: nil})
	case 5:
		if pn == "c" {
			t := thrift.TRUE
			if h.Bool() {
				t = thrift.FALSE
			}
			w.WriteField(thrift.Field{ID: id, Type: t}) // value lives in the header
		} else {
			w.WriteField(thrift.Field{ID: id, Type: thrift.BOOL})
			w.WriteBool(h.Bool())
		}
	case 6:
		w.WriteField(thrift.Field{ID: id, Type: thrift.DOUBLE})
		w.WriteFloat64(1.5)
	case 7:
		w.WriteField(thrift.Field{ID: id, Type: thrift.SET})
		enc.Encode(map[string]struct{}{"a": {}, "bb": {}})
	default:
		w.WriteField(thrift.Field{ID: id, Type: thrift.I8})
		w.WriteInt8(int8(h.U64()))
	}
	return buf.Bytes()
}

func runC08(h *H) {
	N := 250
	if h.Thorough() {
		N = 4000
	}
	for i := 0; i < N; i++ {
		t, val := h.genThriftCase()
		ts := t.String()
		v := parseVal(t, val)
		for _, pn := range thriftProtos {
			p := thriftProto(pn)
			b, err := thrift.Marshal(p, v.Interface())
			if err != nil {
				continue
			}
			good := thriftDecode(p, false, t, b)
			// truncation at every offset: unexpected-EOF class (plain EOF only for empty input)
			// every offset of messages up to 160 (quick) / 600 (thorough) bytes; longer ones: the first 100 offsets
			// and 100 sampled ones (the harness output is quadratic in the message length)
			offsets := []int{}
			full := 160
			if h.Thorough() {
				full = 600
			}
			if len(b) <= full {
				for n := 0; n < len(b); n++ {
					offsets = append(offsets, n)
				}
			} else {
				for n := 0; n < 100; n++ {
					offsets = append(offsets, n)
				}
				for k := 0; k < 100; k++ {
					offsets = append(offsets, 100+h.Intn(len(b)-100))
				}
			}
			for _, n := range offsets {
				o := "err:unexpectedEof"
				if n == 0 {
					o = "err:eof"
				}
				if strings.HasPrefix(good, "ok:") {
					h.DoRisky("thrift.decode", pn, "0", ts, hx(b[:n]), o)
				} else {
					h.DoRisky("thrift.decode", pn, "0", ts, hx(b[:n]))
				}
			}
			// trailing bytes are reported
			if strings.HasPrefix(good, "ok:") {
				h.DoRisky("thrift.decode", pn, "0", ts, hx(append(append([]byte{}, b...), byte(h.U64()))), "err:trailing")
			}
			// unknown field appended before the final stop (top level): value unchanged
			if strings.HasPrefix(good, "ok:") && len(b) > 0 {
				stopLen := 1
				if pn != "c" {
					stopLen = 3
				}
				if len(b) >= stopLen {
					unk := h.thriftUnknownField(pn, 0)
					e := append(append(append([]byte{}, b[:len(b)-stopLen]...), unk...), b[len(b)-stopLen:]...)
					h.DoRisky("thrift.decode", pn, "0", ts, hx(e), good)
					h.Count("unknown_field_cases", 1)
				}
			}
			// mutations (model correspondence + allocation bound)
			for k := 0; k < 4; k++ {
				m := h.mutate(b)
				strict := strconv.Itoa(h.Intn(2))
				h.DoRisky("thrift.decode", pn, strict, ts, hx(m))
				if k == 0 {
					h.DoRisky("thrift.alloc", pn, ts, hx(m))
				}
			}
		}
	}
	// top-level values that are not structs (strings, binaries, collections, pointers): truncation at every offset
	for _, tv := range [][2]string{{"str", "s 616263"}, {"bytes", "s 0102030405"}, {"sl str", "l 2 s 61 s 6263"}, {"ptr str", "p s 7a7a"},
		{"map str i32", "m 1 s 6b i 7"}, {"sl sl i64", "l 2 l 1 i 5 l 0"}, {"str", "s -"}} {
		t := parseTy(tv[0])
		v := parseVal(t, tv[1])
		for _, pn := range thriftProtos {
			b, err := thrift.Marshal(thriftProto(pn), v.Interface())
			if err != nil {
				continue
			}
			for n := 0; n < len(b); n++ {
				o := "err:unexpectedEof"
				if n == 0 {
					o = "err:eof"
				}
				h.DoRisky("thrift.decode", pn, "0", tv[0], hx(b[:n]), o)
			}
			h.DoRisky("thrift.decode", pn, "0", tv[0], hx(b), thriftDecode(thriftProto(pn), false, t, b))
		}
	}
	// collections whose bool element / key / value type is announced as 1 (TRUE): the specification asks readers to accept it
	for _, c := range [][3]string{{"map bool i8", "01130105", "01230105"}, {"map i8 bool", "01310501", "01320501"}, {"sl bool", "210100", "220100"},
		{"map bool bool", "01110101", "01220101"}} {
		t := parseTy(c[0])
		for _, strict := range []string{"0", "1"} {
			h.DoRisky("thrift.decode", "c", strict, c[0], c[1], thriftDecode(thriftProto("c"), false, t, unhx(c[2])))
		}
	}
	// missing required field / strict type mismatch, directed
	req := `st 2 f A 7468726966743a22312c726571756972656422 0 i32 f B 7468726966743a223222 0 str`
	for _, pn := range thriftProtos {
		p := thriftProto(pn)
		type onlyB struct {
			B string `thrift:"2"`
		}
		b, _ := thrift.Marshal(p, onlyB{"x"})
		h.DoRisky("thrift.decode", pn, "0", req, hx(b), "err:missingField")
		type wrongA struct {
			A string `thrift:"1,required"`
			B string `thrift:"2"`
		}
		b, _ = thrift.Marshal(p, wrongA{"zz", "x"})
		h.DoRisky("thrift.decode", pn, "1", req, hx(b), "err:typeMismatch")
		// lengths and sizes of 2^63 and above (ten-byte varints): rejected, never a panic or a bogus small size
		if pn == "c" {
			for _, big := range []uint64{1 << 63, 1<<63 + 3, 1<<64 - 1, 1<<63 + 1<<31 + 2} {
				v := putUvarint(big, 0)
				h.DoRisky("thrift.alloc", pn, `st 1 f A 7468726966743a223122 0 str`, hx(append(append([]byte{0x18}, v...), 'a', 'b', 'c', 0)))
				h.DoRisky("thrift.alloc", pn, `st 1 f A 7468726966743a223122 0 sl i64`, hx(append(append([]byte{0x19, 0xF6}, v...), 2, 4, 0)))
				h.DoRisky("thrift.alloc", pn, `st 1 f A 7468726966743a223122 0 map str i32`, hx(append(append([]byte{0x1b}, v...), 0x85, 1, 'k', 2, 0)))
				h.DoRisky("thrift.decode", pn, "0", `st 1 f A 7468726966743a223122 0 i32`, hx(append(append([]byte{0x88}, v...), 0))) // unknown binary field id 8? (skipped)
			}
		}
		// huge declared sizes in a tiny input
		lst := `st 1 f A 7468726966743a223122 0 sl i64`
		for _, sz := range []uint32{0x7fffffff, 0x22000000, 0x80000000, 0xffffffff, 1 << 20} {
			var e []byte
			if pn == "c" {
				e = append([]byte{0x19, 0xF6}, putUvarint(uint64(sz), 0)...)
			} else {
				e = []byte{9, 0, 1, 6, byte(sz >> 24), byte(sz >> 16), byte(sz >> 8), byte(sz)}
			}
			h.DoRisky("thrift.alloc", pn, lst, hx(e))
		}
	}
}
