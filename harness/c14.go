package main

import (
	"bytes"
	stdjson "encoding/json"
	"fmt"
	"math/big"
	"os"
	"reflect"
	"strconv"
	"strings"

	"github.com/segmentio/encoding/json"
)

// C14 — flags change representation or copying, never meaning.

func generic(b []byte) (any, bool) {
	d := stdjson.NewDecoder(bytes.NewReader(b))
	d.UseNumber()
	var v any
	if err := d.Decode(&v); err != nil {
		return nil, false
	}
	var extra any
	if d.Decode(&extra) == nil {
		return nil, false
	}
	return v, true
}

func flagName(f json.AppendFlags) string {
	var p []string
	if f&json.EscapeHTML != 0 {
		p = append(p, "EscapeHTML")
	}
	if f&json.SortMapKeys != 0 {
		p = append(p, "SortMapKeys")
	}
	if f&json.TrustRawMessage != 0 {
		p = append(p, "TrustRawMessage")
	}
	return strings.Join(p, "|") + "."
}

var parseFlagBits = []json.ParseFlags{json.DontCopyString, json.DontCopyNumber, json.DontCopyRawMessage, json.DontMatchCaseInsensitiveStructFields}

func init() {
	registry["C14"] = runC14
	// json.aflags <subseed> <val|ptr>: all 8 AppendFlags subsets against the default (EscapeHTML|SortMapKeys) output
	ops["json.aflags"] = func(a []string) (string, string, string) {
		sub, _ := strconv.ParseUint(a[0], 10, 64)
		t, v, feats := jsonCase(sub, false)
		if os.Getenv("VH_TRACE") != "" {
			fmt.Fprintf(os.Stderr, "TYPE %s\nVALUE %#v\nFEATS %v\n", t, v.Interface(), feats)
		}
		x := v.Interface()
		if a[1] == "ptr" {
			p := reflect.New(t)
			p.Elem().Set(v)
			x = p.Interface()
		}
		ks := ""
		if feats["collide"] || feats["shadow"] {
			ks = "jsonFieldNameCollision"
		}
		def, derr := json.Append(nil, x, json.EscapeHTML|json.SortMapKeys)
		var dgen, ngen any
		if derr == nil {
			var ok bool
			if dgen, ok = generic(def); !ok {
				return "default-output-not-valid-json", "ok", ks
			}
			// reference for the subsets without EscapeHTML. A `,string` string field is quoted twice, the inner quoting with the
			// HTML setting: there (and only there) encoding/json's own outputs for the two settings decode to different strings,
			// so the no-escape reference is the no-escape output (tied to the standard Encoder byte for byte below).
			ngen = dgen
			if feats["stringopt"] {
				noesc, _ := json.Append(nil, x, json.SortMapKeys)
				if ngen, ok = generic(noesc); !ok {
					return "noescape-output-not-valid-json", "ok", ks
				}
			}
		}
		for fl := json.AppendFlags(0); fl < 8; fl++ {
			if fl&json.TrustRawMessage != 0 && feats["badraw"] {
				continue // the flag is a promise that raw messages are valid
			}
			out, err := json.Append(nil, x, fl)
			if (err == nil) != (derr == nil) {
				return "error-differs " + flagName(fl), "ok", ks
			}
			if err != nil {
				continue
			}
			g, ok := generic(out)
			if !ok {
				return "not-valid-json " + flagName(fl), "ok", ks
			}
			want := dgen
			if fl&json.EscapeHTML == 0 {
				want = ngen
			}
			if !reflect.DeepEqual(g, want) {
				return "generic-value-differs " + flagName(fl), "ok", ks
			}
			if fl&json.TrustRawMessage == 0 && len(out) != len(def) && fl&json.EscapeHTML != 0 {
				return "length-differs-though-only-permuted " + flagName(fl), "ok", ks
			}
			if fl == json.SortMapKeys { // EscapeHTML off, sorted: the standard Encoder with SetEscapeHTML(false)
				var sb bytes.Buffer
				en := stdjson.NewEncoder(&sb)
				en.SetEscapeHTML(false)
				if e := en.Encode(x); e == nil {
					if want := bytes.TrimSuffix(sb.Bytes(), []byte("\n")); !bytes.Equal(out, want) && !(feats["collide"] || feats["shadow"]) {
						return "noescape-differs-from-std-encoder", "ok", ks
					}
				}
			}
			// the Encoder setters reach the same code: identical bytes, newline iff SetAppendNewline
			for _, nl := range []bool{true, false} {
				var eb bytes.Buffer
				en := json.NewEncoder(&eb)
				en.SetEscapeHTML(fl&json.EscapeHTML != 0)
				en.SetSortMapKeys(fl&json.SortMapKeys != 0)
				en.SetTrustRawMessage(fl&json.TrustRawMessage != 0)
				en.SetAppendNewline(nl)
				if e := en.Encode(x); e != nil {
					return "encoder-error " + flagName(fl), "ok", ks
				}
				got := eb.Bytes()
				if nl {
					if !bytes.HasSuffix(got, []byte("\n")) {
						return "encoder-no-newline " + flagName(fl), "ok", ks
					}
					got = got[:len(got)-1]
				}
				if fl&json.SortMapKeys != 0 || !feats["multimap"] {
					if !bytes.Equal(got, out) {
						return "encoder-differs-from-append " + flagName(fl), "ok", ks
					}
				} else if g2, ok := generic(got); !ok || !reflect.DeepEqual(g2, want) {
					return "encoder-generic-differs " + flagName(fl), "ok", ks
				}
			}
		}
		return "ok", "ok", ks
	}
	// json.pflags <subseed>: the default output parsed with every subset of the copy / case flags restores the same value
	ops["json.pflags"] = func(a []string) (string, string, string) {
		sub, _ := strconv.ParseUint(a[0], 10, 64)
		t, v, feats := jsonCase(sub, true)
		if os.Getenv("VH_TRACE") != "" {
			fmt.Fprintf(os.Stderr, "TYPE %s\nVALUE %#v\nFEATS %v\n", t, v.Interface(), feats)
		}
		ks := ""
		if feats["collide"] || feats["shadow"] {
			ks = "jsonFieldNameCollision"
		}
		doc, err := json.Append(nil, v.Interface(), json.EscapeHTML|json.SortMapKeys)
		if err != nil {
			return "ok", "ok", ks
		}
		ref := reflect.New(t)
		_, rerr := json.Parse(append([]byte{}, doc...), ref.Interface(), 0)
		for m := 0; m < 16; m++ {
			var fl json.ParseFlags
			for i, b := range parseFlagBits {
				if m&(1<<i) != 0 {
					fl |= b
				}
			}
			in := append([]byte{}, doc...)
			got := reflect.New(t)
			rest, err := json.Parse(in, got.Interface(), fl)
			if (err == nil) != (rerr == nil) {
				if os.Getenv("VH_TRACE") != "" {
					fmt.Fprintf(os.Stderr, "DOC %s\nERR0 %v\nERR %v\n", doc, rerr, err)
				}
				return fmt.Sprintf("error-differs flags=%d", m), "ok", ks
			}
			if err != nil {
				continue
			}
			if len(rest) != 0 {
				return fmt.Sprintf("rest-not-empty flags=%d", m), "ok", ks
			}
			if !eqVal(got.Elem(), ref.Elem()) {
				return fmt.Sprintf("value-differs flags=%d", m), "ok", ks
			}
			if !bytes.Equal(in, doc) {
				return fmt.Sprintf("input-modified flags=%d", m), "ok", ks
			}
			// same through the Decoder setters
			dec := json.NewDecoder(bytes.NewReader(doc))
			if m&1 != 0 {
				dec.DontCopyString()
			}
			if m&2 != 0 {
				dec.DontCopyNumber()
			}
			if m&4 != 0 {
				dec.DontCopyRawMessage()
			}
			if m&8 != 0 {
				dec.DontMatchCaseInsensitiveStructFields()
			}
			if m == 7 {
				dec = json.NewDecoder(bytes.NewReader(doc))
				dec.ZeroCopy()
			}
			got2 := reflect.New(t)
			if e := dec.Decode(got2.Interface()); e != nil || !eqVal(got2.Elem(), ref.Elem()) {
				return fmt.Sprintf("decoder-differs flags=%d", m), "ok", ks
			}
		}
		return "ok", "ok", ks
	}
	// json.dynnum <flags 0..15: UseNumber=1 UseBigInt=2 UseInt64=4 UseUint64=8> <hex literal>: dynamic type and value
	ops["json.dynnum"] = func(a []string) (string, string, string) {
		m, _ := strconv.Atoi(a[0])
		lit := unhx(a[1])
		var fl json.ParseFlags
		for i, b := range []json.ParseFlags{json.UseNumber, json.UseBigInt, json.UseInt64, json.UseUint64} {
			if m&(1<<i) != 0 {
				fl |= b
			}
		}
		show := func(v any) string {
			switch x := v.(type) {
			case uint64:
				return "u64:" + strconv.FormatUint(x, 10)
			case int64:
				return "i64:" + strconv.FormatInt(x, 10)
			case *big.Int:
				return "big:" + x.String()
			case json.Number:
				return "num:" + string(x)
			case float64:
				want, err := strconv.ParseFloat(string(lit), 64)
				if err != nil || want != x {
					return "f64!value"
				}
				return "f64"
			}
			return fmt.Sprintf("other:%T", v)
		}
		var v any
		if _, err := json.Parse(lit, &v, fl); err != nil {
			return "err", "-", ""
		}
		r := show(v)
		// the same number nested in an array and an object member must get the same treatment
		var w any
		doc := append(append([]byte(`{"k":[`), lit...), []byte(`]}`)...)
		if _, err := json.Parse(doc, &w, fl); err != nil {
			return r + ";nested-err", "-", ""
		}
		if n := show(w.(map[string]any)["k"].([]any)[0]); n != r {
			return r + ";nested=" + n, "-", ""
		}
		return r, "-", ""
	}
}

func runC14(h *H) {
	lits := []string{"0", "-0", "1", "-1", "12", "9223372036854775807", "9223372036854775808", "-9223372036854775808", "-9223372036854775809",
		"18446744073709551615", "18446744073709551616", "123456789012345678901234567890", "-123456789012345678901234567890", "1.0", "1.5", "-1.5",
		"1e2", "1E2", "0.0", "-0.0", "25000000000000000000", "30000000000000000000", "4294967296", "0e0", "100"}
	for _, l := range lits {
		for m := 0; m < 16; m++ {
			h.Do("json.dynnum", strconv.Itoa(m), hx([]byte(l)))
		}
	}
	R := 60
	if h.Thorough() {
		R = 1500
	}
	for i := 0; i < R; i++ {
		var l string
		switch h.Intn(4) {
		case 0:
			l = strconv.FormatUint(h.U64()>>uint(h.Intn(64)), 10)
		case 1:
			l = "-" + strconv.FormatUint(h.U64()>>uint(h.Intn(64)), 10)
		case 2:
			l = strconv.FormatUint(h.U64(), 10) + strconv.Itoa(h.Intn(100))
		default:
			l = strconv.FormatFloat(float64(int64(h.U64()))/float64(1+h.Intn(1000)), byte("eEfg"[h.Intn(4)]), -1, 64)
			if strings.ContainsAny(l, "IN") {
				l = "1.25"
			}
			l = strings.Replace(l, "e+", "e", 1)
		}
		for m := 0; m < 16; m++ {
			h.Do("json.dynnum", strconv.Itoa(m), hx([]byte(l)))
		}
	}
	N := 1000
	if h.Thorough() {
		N = 25000
	}
	for i := 0; i < N; i++ {
		s := strconv.FormatUint(h.U64(), 10)
		h.DoRisky("json.aflags", s, h.Pick([]string{"val", "ptr"}))
		h.DoRisky("json.pflags", strconv.FormatUint(h.U64(), 10))
	}
	genStrRT(h) // cross-model round trip of the string codec (c14rt.go)
	genMapOrder(h)
	genRawEmit(h) // RawMessage / MarshalJSON output re-emitted by the encoder (c14raw.go)
}
