package main

import (
	"bytes"
	"fmt"
	"io"
	"reflect"
	"sort"
	"strconv"
	"strings"
	"sync"
	"unsafe"

	"github.com/segmentio/encoding/proto"
	"github.com/segmentio/encoding/thrift"
)

// C04 / C03 / C09, retained results of packages thrift and proto — the counterpart of c10acc.go (json.retain). The other
// generators of these two packages consume every result at once, so a call HISTORY is never exercised. Here each case is a
// sequence of 6–20 API calls derived from its seed (two or three message types per package, a new type-directed value per
// call), spread over the main goroutine and two more, with one Encoder / Decoder / reused target / caller buffer per
// goroutine that is Reset and used again. Every public API that hands out memory or fills memory of the caller takes part:
//
//	thrift  Marshal (binary strict, binary non-strict, compact; one value under all three before any is decoded),
//	        NewEncoder(…).Encode into a bytes.Buffer of the caller (Reset onto another protocol / the same buffer / no Reset),
//	        Unmarshal, NewDecoder(…).Decode (Reset, two values in one stream, chunked reader), Unmarshal into a REUSED target,
//	        Writer / Reader primitives (ReadBytes, ReadString, ReadMessage)
//	proto   Marshal, Size, MarshalTo into a caller buffer (two messages back to back, guard bytes around), Unmarshal (fresh
//	        and recycled targets), Parse / Scan / RawValue / RawMessage, FieldNumber.* / Append*, MessageRewriter /
//	        MultiRewriter / template rewriters (Rewrite into nil and into a caller buffer), TypeOf
//
// Scheme: every result is retained next to a private copy taken when it was returned (byte slices and strings by address and
// content, decoded values as text). After ALL calls and a churn of the pools:
//
//	input-modified:<api>                 a lent input (wire bytes, Go value being encoded, template) differs from its copy
//	retained-changed:<api>:<call#>       a retained result differs from its copy
//	roundtrip-after-history:<api>:<call#> an encoded payload no longer decodes to what the SAME payload decoded to when it was
//	                                     produced (known deviations of the round trip cannot show up: payload against payload)
//	alias:<api>:<call#>                  memory documented as fresh overlaps memory handed out by another call
//	alias-input:<api>:<call#>            … or overlaps memory of the caller (an input, a caller buffer)
//	outside-input:<api>:<call#>          a documented sub-slice of the input (Parse, Scan) does not lie in the input
//	changed-with-input:<api>:<call#>     a documented copy changed when the inputs were overwritten afterwards
//	not-repeatable:<api>:<call#>         the same encoding call made again after the history (the outputs of the first one
//	                                     overwritten by their owner) gives another result
//	and, decided when the call is made: enc-differs / dec-differs / reuse-differs (a reused Encoder, Decoder, target against a
//	fresh one), cross-differs (the three protocols), marshalto-differs, wrote-past-length, size-differs, rewrite-differs,
//	mismatch, error.
//
//	thrift.retain <seed> <size 0..3>   -> ok | <the verdict of the earliest call concerned>
//	proto.retain  <seed> <size 0..3>   (the same machinery; each op mixes in a fifth of calls of the other package)
//
// Everything derives from <seed> and <size>: a case replays exactly.

const (
	ptFresh = iota // documented as memory of its own: shares nothing with inputs or with results of other calls
	ptOwned        // written into / appended to memory of the caller
	ptSub          // documented sub-slice of the input
)

// ptHome is memory of the caller: an input lent to the library, or a buffer the library writes into.
type ptHome struct {
	api  string
	call int
	buf  []byte
	snap []byte // nil for output buffers (their segments are retained one by one)
	ro   bool   // memory of a Go value or of a string: compared, never overwritten
}

type ptRec struct {
	api   string
	call  int
	group int // results of one group may share memory
	class int
	mem   []byte
	snap  []byte
	span  []byte // everything the result owns (the whole capacity of a returned slice)
	str   bool   // memory of a string: never written to
}

type ptVal struct {
	api  string
	call int
	t    *Ty
	v    reflect.Value
	snap string
	in   bool // a value lent to the library (being encoded), not a result
	dead bool // the target was handed back to the library for reuse
}

type ptPay struct {
	api  string
	call int
	wire []byte
	dec  func([]byte) string
	want string
}

type ptNum struct {
	api  string
	call int
	get  func() string
	snap string
}

type ptFail struct {
	call, ord int
	msg       string
}

type ptLog struct {
	mu      sync.Mutex
	homes   []ptHome
	recs    []ptRec
	vals    []*ptVal
	pays    []ptPay
	nums    []ptNum
	replays []ptNum
	fails   []ptFail
	groups  int
	phase   int
}

func (lg *ptLog) fail(call int, what, api string) {
	lg.mu.Lock()
	defer lg.mu.Unlock()
	msg := what + ":" + api
	if what != "input-modified" {
		msg += ":" + strconv.Itoa(call)
	}
	lg.fails = append(lg.fails, ptFail{call, lg.phase, msg})
}

func (lg *ptLog) group() int {
	lg.mu.Lock()
	defer lg.mu.Unlock()
	lg.groups++
	return lg.groups
}

func ptSpan(b []byte) (uintptr, uintptr) {
	lo := uintptr(unsafe.Pointer(unsafe.SliceData(b)))
	return lo, lo + uintptr(len(b))
}

func ptWithin(a, home []byte) bool {
	al, ah := ptSpan(a)
	hl, hh := ptSpan(home)
	return len(home) != 0 && al >= hl && ah <= hh
}

func ptClone(b []byte) []byte { return append([]byte{}, b...) }

// lend makes the private input buffer of one call (with spare capacity) and remembers what it must still hold afterwards.
func (lg *ptLog) lend(api string, call int, doc []byte, spare int) []byte {
	in := append(make([]byte, 0, len(doc)+spare), doc...)
	lg.mu.Lock()
	defer lg.mu.Unlock()
	lg.homes = append(lg.homes, ptHome{api: api, call: call, buf: in[:cap(in)], snap: ptClone(in[:cap(in)])})
	return in
}

// lendVal registers a Go value that is about to be encoded: its text, and the memory of its strings and byte slices.
func (lg *ptLog) lendVal(api string, call int, t *Ty, v reflect.Value) {
	var regs []region
	regions(v, &regs)
	lg.mu.Lock()
	defer lg.mu.Unlock()
	lg.vals = append(lg.vals, &ptVal{api: api, call: call, t: t, v: v, snap: showVal(t, v, false), in: true})
	for _, r := range regs {
		if r.n < 2 {
			continue
		}
		b := unsafe.Slice((*byte)(r.p), r.n)
		lg.homes = append(lg.homes, ptHome{api: api, call: call, buf: b, snap: ptClone(b), ro: true})
	}
}

// lendRO registers read-only memory of the caller (a template, the leaves of a rewriter).
func (lg *ptLog) lendRO(api string, call int, b []byte) {
	if len(b) == 0 {
		return
	}
	lg.mu.Lock()
	defer lg.mu.Unlock()
	lg.homes = append(lg.homes, ptHome{api: api, call: call, buf: b, snap: ptClone(b), ro: true})
}

// buffer registers an output buffer of the caller (whole capacity), once.
func (lg *ptLog) buffer(api string, call int, b []byte) {
	b = b[:cap(b)]
	if len(b) == 0 {
		return
	}
	lg.mu.Lock()
	defer lg.mu.Unlock()
	for _, h := range lg.homes {
		if h.snap == nil && ptWithin(b, h.buf) {
			return
		}
	}
	lg.homes = append(lg.homes, ptHome{api: api, call: call, buf: b, ro: true})
}

// out retains a byte slice handed out (or filled) by api.
func (lg *ptLog) out(api string, call, group, class int, b, home []byte) {
	if class == ptSub && !(ptWithin(b, home) || len(b) == 0) {
		lg.fail(call, "outside-input", api)
	}
	if len(b) == 0 {
		return
	}
	rec := ptRec{api: api, call: call, group: group, class: class, mem: b, snap: ptClone(b), span: b}
	if class == ptFresh {
		rec.span = b[:cap(b)]
	}
	lg.mu.Lock()
	defer lg.mu.Unlock()
	lg.recs = append(lg.recs, rec)
}

// str retains a string handed out by api (one-byte strings live in a static table of the runtime).
func (lg *ptLog) str(api string, call, group int, s string) {
	if len(s) < 2 {
		return
	}
	b := unsafe.Slice(unsafe.StringData(s), len(s))
	lg.mu.Lock()
	defer lg.mu.Unlock()
	lg.recs = append(lg.recs, ptRec{api: api, call: call, group: group, class: ptFresh, mem: b, snap: ptClone(b), span: b, str: true})
}

// val retains a decoded value: its text, and each string / []byte in it as fresh memory.
func (lg *ptLog) val(api string, call int, t *Ty, ptr reflect.Value) *ptVal {
	g := lg.group()
	var regs []region
	regions(ptr.Elem(), &regs)
	for _, r := range regs {
		if r.n == 0 {
			continue
		}
		if r.kind == "string" {
			lg.str(api, call, g, unsafe.String((*byte)(r.p), r.n))
		} else {
			lg.out(api, call, g, ptFresh, unsafe.Slice((*byte)(r.p), r.n), nil)
		}
	}
	pv := &ptVal{api: api, call: call, t: t, v: ptr.Elem(), snap: showVal(t, ptr.Elem(), false)}
	lg.mu.Lock()
	defer lg.mu.Unlock()
	lg.vals = append(lg.vals, pv)
	return pv
}

// pay retains an encoded payload next to what it decodes to NOW.
func (lg *ptLog) pay(api string, call int, wire []byte, dec func([]byte) string) {
	want := dec(wire)
	lg.mu.Lock()
	defer lg.mu.Unlock()
	lg.pays = append(lg.pays, ptPay{api, call, wire, dec, want})
}

// num retains a result that is a plain value (Size, the description of a Type): get must give the same text later.
func (lg *ptLog) num(api string, call int, get func() string) string {
	s := get()
	lg.mu.Lock()
	defer lg.mu.Unlock()
	lg.nums = append(lg.nums, ptNum{api, call, get, s})
	return s
}

// replay registers the call to be made again after the history; f returns "" when the result is the one of the first time.
func (lg *ptLog) replay(api string, call int, f func() string) {
	lg.mu.Lock()
	defer lg.mu.Unlock()
	lg.replays = append(lg.replays, ptNum{api: api, call: call, get: f})
}

func (lg *ptLog) checkHomes() {
	for _, h := range lg.homes {
		if h.snap != nil && !bytes.Equal(h.buf, h.snap) {
			lg.fail(h.call, "input-modified", h.api)
		}
	}
	for _, v := range lg.vals {
		if v.in && showVal(v.t, v.v, false) != v.snap {
			lg.fail(v.call, "input-modified", v.api)
		}
	}
}

func (lg *ptLog) checkRetained(what string, afterOverwrite bool) {
	for _, r := range lg.recs {
		if afterOverwrite && r.class != ptFresh {
			continue
		}
		if !bytes.Equal(r.mem, r.snap) {
			lg.fail(r.call, what, r.api)
		}
	}
	for _, v := range lg.vals {
		if !v.in && !v.dead && showVal(v.t, v.v, false) != v.snap {
			lg.fail(v.call, what, v.api)
		}
	}
	if afterOverwrite {
		return
	}
	for _, n := range lg.nums {
		if n.get() != n.snap {
			lg.fail(n.call, what, n.api)
		}
	}
}

func (lg *ptLog) checkPayloads() {
	for _, p := range lg.pays {
		if p.dec(p.wire) != p.want {
			lg.fail(p.call, "roundtrip-after-history", p.api)
		}
	}
}

// checkAlias: memory handed out as fresh by one call overlaps neither memory of the caller nor memory handed out as fresh by
// another call. Sweep over the address ranges, keeping the furthest end seen and the furthest end of another group.
func (lg *ptLog) checkAlias() {
	type item struct {
		lo, hi uintptr
		group  int // homes: negative, one each
		rec    int // index in recs, -1 for a home
	}
	var its []item
	for i, h := range lg.homes {
		if lo, hi := ptSpan(h.buf); lo != hi {
			its = append(its, item{lo, hi, -1 - i, -1})
		}
	}
	for i, r := range lg.recs {
		if r.class == ptFresh && len(r.span) != 0 {
			lo, hi := ptSpan(r.span)
			its = append(its, item{lo, hi, r.group, i})
		}
	}
	sort.Slice(its, func(a, b int) bool {
		if its[a].lo != its[b].lo {
			return its[a].lo < its[b].lo
		}
		return a < b
	})
	report := func(a, b item) {
		switch {
		case a.rec < 0 && b.rec < 0:
		case a.rec < 0:
			lg.fail(lg.recs[b.rec].call, "alias-input", lg.recs[b.rec].api)
		case b.rec < 0:
			lg.fail(lg.recs[a.rec].call, "alias-input", lg.recs[a.rec].api)
		default:
			later := lg.recs[a.rec]
			if lg.recs[b.rec].call > later.call {
				later = lg.recs[b.rec]
			}
			lg.fail(later.call, "alias", later.api)
		}
	}
	var top, second item // furthest end; furthest end among the items of another group than top's
	have, have2 := false, false
	for _, it := range its {
		if have && it.group != top.group && it.lo < top.hi {
			report(top, it)
		} else if have2 && it.group == top.group && it.lo < second.hi {
			report(second, it)
		}
		switch {
		case !have:
			top, have = it, true
		case it.group == top.group:
			if it.hi > top.hi {
				top = it
			}
		case it.hi > top.hi:
			second, have2 = top, true
			top = it
		case !have2 || it.hi > second.hi:
			second, have2 = it, true
		}
	}
}

// overwrite: the caller reuses its input buffers.
func (lg *ptLog) overwrite() {
	for _, h := range lg.homes {
		if !h.ro {
			for i := range h.buf {
				h.buf[i] = 0xFF
			}
		}
	}
}

// scribble: the caller does what it likes with the byte slices it was given as its own.
func (lg *ptLog) scribble() {
	for _, r := range lg.recs {
		if r.class == ptFresh && !r.str {
			for i := range r.span {
				r.span[i] = 0xA5
			}
		}
	}
}

func (lg *ptLog) verdict() string {
	if len(lg.fails) == 0 {
		return "ok"
	}
	sort.SliceStable(lg.fails, func(a, b int) bool {
		x, y := lg.fails[a], lg.fails[b]
		if x.call != y.call {
			return x.call < y.call
		}
		if x.ord != y.ord {
			return x.ord < y.ord
		}
		return x.msg < y.msg
	})
	return lg.fails[0].msg
}

// ---- values ----------------------------------------------------------------------------------------------------------------

type ptBudget struct{ n int }

// ptInflate makes some strings / byte slices of v longer, by size class (1: hundreds of bytes, 2: kilobytes, 3: around and
// above the 64 KiB mark).
func ptInflate(r *H, v reflect.Value, size int, bd *ptBudget) {
	if size == 0 || bd.n <= 0 {
		return
	}
	text := func() []byte {
		bd.n--
		var n int
		switch size {
		case 1:
			n = 40 + r.Intn(400)
		case 2:
			n = 400 + r.Intn(5000)
		default:
			n = 5000 + r.Intn(70000)
		}
		b := make([]byte, n)
		for i := range b {
			b[i] = byte('a' + r.Intn(26))
		}
		return b
	}
	switch v.Kind() {
	case reflect.String:
		if r.Intn(3) == 0 {
			v.SetString(string(text()))
		}
	case reflect.Slice:
		if v.Type().Elem().Kind() == reflect.Uint8 {
			if !v.IsNil() && r.Intn(3) == 0 {
				v.SetBytes(text())
			}
			return
		}
		for i := 0; i < v.Len(); i++ {
			ptInflate(r, v.Index(i), size, bd)
		}
	case reflect.Ptr:
		if !v.IsNil() {
			ptInflate(r, v.Elem(), size, bd)
		}
	case reflect.Struct:
		for i := 0; i < v.NumField(); i++ {
			ptInflate(r, v.Field(i), size, bd)
		}
	}
}

func ptBudgetOf(size int) *ptBudget { return &ptBudget{n: []int{0, 6, 4, 2}[size]} }

func ptThriftVal(r *H, t *Ty, size int) reflect.Value {
	for try := 0; try < 30; try++ {
		v := r.genVal(t, 0)
		ptInflate(r, v, size, ptBudgetOf(size))
		r.clampEnums(t, v)
		r.setRequired(t, v)
		if hasMultiMap(t, v) && nilPtrInCollection(v) {
			continue // a damaged stream under a random map order: not reproducible (as in genThriftCase)
		}
		return v
	}
	v := reflect.New(t.Reflect()).Elem()
	r.setRequired(t, v)
	return v
}

func ptProtoVal(r *H, t *Ty, size int) reflect.Value {
	for try := 0; try < 30; try++ {
		v := r.genVal(t, 0)
		if t.K == "ptr" && v.IsNil() {
			v.Set(reflect.New(t.Elem.Reflect()))
		}
		ptInflate(r, v, size, ptBudgetOf(size))
		if hasMultiMap(t, v) && nilPtrInCollection(v) {
			continue // as in genProtoCase
		}
		return v
	}
	v := reflect.New(t.Reflect()).Elem()
	if t.K == "ptr" {
		v.Set(reflect.New(t.Elem.Reflect()))
	}
	return v
}

func ptThriftShow(p thrift.Protocol, t *Ty, b []byte) string {
	tgt := reflect.New(t.Reflect())
	if err := thrift.Unmarshal(p, b, tgt.Interface()); err != nil {
		return thriftErrClass(err)
	}
	return "ok:" + showVal(t, tgt.Elem(), false)
}

func ptProtoShow(t *Ty, b []byte) string {
	tgt := reflect.New(t.Reflect())
	if err := proto.Unmarshal(b, tgt.Interface()); err != nil {
		return "err"
	}
	return "ok:" + showVal(t, tgt.Elem(), false)
}

// ptSameWire: two encodings of one value are the same bytes, or (maps with several entries: random order) the same content.
func ptSameWire(multi bool, a, b []byte, dec func([]byte) string) bool {
	if !multi {
		return bytes.Equal(a, b)
	}
	return dec(a) == dec(b)
}

// ptKeep resets a decoded thrift value the way a caller reusing it does: everything zero, objects behind pointers kept.
func ptKeep(v reflect.Value) {
	switch v.Kind() {
	case reflect.Ptr:
		if !v.IsNil() {
			ptKeep(v.Elem())
		}
	case reflect.Struct:
		for i := 0; i < v.NumField(); i++ {
			ptKeep(v.Field(i))
		}
	default:
		v.Set(reflect.Zero(v.Type()))
	}
}

type ptChunkReader struct {
	src   []byte
	off   int
	chunk int
}

func (r *ptChunkReader) Read(p []byte) (int, error) {
	if r.off >= len(r.src) {
		return 0, io.EOF
	}
	n := len(p)
	if n > r.chunk {
		n = r.chunk
	}
	n = copy(p[:n], r.src[r.off:])
	r.off += n
	return n, nil
}

// ---- the sequence ----------------------------------------------------------------------------------------------------------

type ptTarget struct {
	ptr reflect.Value
	rec *ptVal
}

// ptLane: what one goroutine keeps between its calls.
type ptLane struct {
	enc    *thrift.Encoder
	encP   string
	encBuf *bytes.Buffer
	dec    *thrift.Decoder
	ttgt   map[int]*ptTarget
	ptgt   map[int]*ptTarget
	mbuf   []byte // caller buffer of MarshalTo, filled front to back over several calls
	moff   int
	rw     proto.Rewriter
	calls  []*ptCall
}

type ptCall struct {
	idx  int
	lane *ptLane
	r    *H // the call's own PRNG: what it generates does not depend on the scheduling
	f    func(q *ptSeq, k *ptCall)
}

type ptSeq struct {
	lg   *ptLog
	size int
	tt   []*Ty // thrift message types
	pt   []*Ty // proto message types
	mt   []*Ty // proto message types that templates can describe
}

const ptGuard = 0xEE

// ---- thrift ----------------------------------------------------------------------------------------------------------------

func (q *ptSeq) tMarshal(k *ptCall) {
	const api = "thrift.Marshal"
	t := q.tt[k.r.Intn(len(q.tt))]
	v := ptThriftVal(k.r, t, q.size)
	p := thriftProto(thriftProtos[k.r.Intn(3)])
	multi := hasMultiMap(t, v)
	q.lg.lendVal(api, k.idx, t, v)
	b, err := thrift.Marshal(p, v.Interface())
	if err != nil {
		q.lg.fail(k.idx, "error", api)
		return
	}
	dec := func(b []byte) string { return ptThriftShow(p, t, b) }
	q.lg.out(api, k.idx, q.lg.group(), ptFresh, b, nil)
	q.lg.pay(api, k.idx, b, dec)
	snap := ptClone(b)
	q.lg.replay(api, k.idx, func() string {
		if b2, err := thrift.Marshal(p, v.Interface()); err != nil || !ptSameWire(multi, b2, snap, dec) {
			return "not-repeatable"
		}
		return ""
	})
}

// one value under the three protocols, all marshalled before any is decoded: they agree on the content
func (q *ptSeq) tCross(k *ptCall) {
	const api = "thrift.Marshal"
	t := q.tt[k.r.Intn(len(q.tt))]
	v := ptThriftVal(k.r, t, q.size)
	q.lg.lendVal(api, k.idx, t, v)
	var outs [3][]byte
	for i, pn := range thriftProtos {
		b, err := thrift.Marshal(thriftProto(pn), v.Interface())
		if err != nil {
			q.lg.fail(k.idx, "error", api)
			return
		}
		outs[i] = b
	}
	var shown [3]string
	for i, pn := range thriftProtos {
		p := thriftProto(pn)
		shown[i] = thriftDecode(p, false, t, outs[i])
		q.lg.out(api, k.idx, q.lg.group(), ptFresh, outs[i], nil)
		q.lg.pay(api, k.idx, outs[i], func(b []byte) string { return ptThriftShow(p, t, b) })
	}
	if shown[0] != shown[1] || shown[1] != shown[2] {
		q.lg.fail(k.idx, "cross-differs", api)
	}
}

// the Encoder of the goroutine, twice per call
func (q *ptSeq) tEncoder(k *ptCall) {
	q.tEncoder1(k)
	q.tEncoder1(k)
}

func (q *ptSeq) tEncoder1(k *ptCall) {
	const api = "thrift.Encoder.Encode"
	ln := k.lane
	t := q.tt[k.r.Intn(len(q.tt))]
	v := ptThriftVal(k.r, t, q.size)
	pn := thriftProtos[k.r.Intn(3)]
	p := thriftProto(pn)
	multi := hasMultiMap(t, v)
	q.lg.lendVal(api, k.idx, t, v)
	mode := k.r.Intn(4)
	switch {
	case ln.enc == nil || mode == 0:
		// another buffer of the caller (with some spare capacity), a fresh Encoder the first time, Reset afterwards
		ln.encBuf = bytes.NewBuffer(make([]byte, 0, k.r.Intn(4)*48))
		if ln.enc == nil {
			ln.enc = thrift.NewEncoder(p.NewWriter(ln.encBuf))
		} else {
			ln.enc.Reset(p.NewWriter(ln.encBuf))
		}
	case mode == 1 && ln.encP == pn:
		// no Reset: the next value of a stream
	default:
		ln.enc.Reset(p.NewWriter(ln.encBuf)) // the same buffer goes on, maybe under another protocol
	}
	ln.encP = pn
	buf := ln.encBuf
	start := buf.Len()
	before := ptClone(buf.Bytes())
	if err := ln.enc.Encode(v.Interface()); err != nil {
		q.lg.fail(k.idx, "error", api)
		return
	}
	all := buf.Bytes()
	if !bytes.Equal(all[:start], before) {
		q.lg.fail(k.idx, "prefix-modified", api)
	}
	seg := all[start:len(all):len(all)]
	q.lg.buffer(api, k.idx, all)
	dec := func(b []byte) string { return ptThriftShow(p, t, b) }
	q.lg.out(api, k.idx, q.lg.group(), ptOwned, seg, nil)
	q.lg.pay(api, k.idx, seg, dec)
	// a fresh Encoder on a fresh buffer writes the same
	var fb bytes.Buffer
	if err := thrift.NewEncoder(p.NewWriter(&fb)).Encode(v.Interface()); err != nil || !ptSameWire(multi, seg, fb.Bytes(), dec) {
		q.lg.fail(k.idx, "enc-differs", api)
	}
	snap := ptClone(seg)
	q.lg.replay(api, k.idx, func() string {
		var rb bytes.Buffer
		rb.WriteString("xy")
		ln.enc.Reset(p.NewWriter(&rb))
		if err := ln.enc.Encode(v.Interface()); err != nil || !ptSameWire(multi, rb.Bytes()[2:], snap, dec) {
			return "not-repeatable"
		}
		return ""
	})
}

func (q *ptSeq) tUnmarshal(k *ptCall) {
	const api = "thrift.Unmarshal"
	t := q.tt[k.r.Intn(len(q.tt))]
	v := ptThriftVal(k.r, t, q.size)
	p := thriftProto(thriftProtos[k.r.Intn(3)])
	wire, err := thrift.Marshal(p, v.Interface())
	if err != nil {
		q.lg.fail(k.idx, "error", "thrift.Marshal")
		return
	}
	in := q.lg.lend(api, k.idx, wire, k.r.Intn(3)*8)
	tgt := reflect.New(t.Reflect())
	if err := thrift.Unmarshal(p, in, tgt.Interface()); err != nil {
		return // what the value decodes to is the business of the round-trip generators
	}
	q.lg.val(api, k.idx, t, tgt)
}

// the Decoder of the goroutine, Reset onto a stream of two values (bytes.Reader or a reader that delivers small chunks),
// twice per call
func (q *ptSeq) tDecoder(k *ptCall) {
	q.tDecoder1(k)
	q.tDecoder1(k)
}

func (q *ptSeq) tDecoder1(k *ptCall) {
	const api = "thrift.Decoder.Decode"
	ln := k.lane
	t := q.tt[k.r.Intn(len(q.tt))]
	p := thriftProto(thriftProtos[k.r.Intn(3)])
	var wires [2][]byte
	var stream []byte
	for i := range wires {
		v := ptThriftVal(k.r, t, q.size)
		w, err := thrift.Marshal(p, v.Interface())
		if err != nil {
			q.lg.fail(k.idx, "error", "thrift.Marshal")
			return
		}
		wires[i] = ptClone(w)
		stream = append(stream, w...)
	}
	in := q.lg.lend(api, k.idx, stream, k.r.Intn(3)*8)
	var rd io.Reader = bytes.NewReader(in)
	if k.r.Intn(3) == 0 {
		rd = &ptChunkReader{src: in, chunk: 1 + k.r.Intn(7)}
	}
	if ln.dec == nil {
		ln.dec = thrift.NewDecoder(p.NewReader(rd))
	} else {
		ln.dec.Reset(p.NewReader(rd))
	}
	for i := range wires {
		tgt := reflect.New(t.Reflect())
		err := ln.dec.Decode(tgt.Interface())
		want := ptThriftShow(p, t, wires[i])
		got := "err"
		if err == nil {
			got = "ok:" + showVal(t, tgt.Elem(), false)
			q.lg.val(api, k.idx, t, tgt)
		}
		if (err == nil) != strings.HasPrefix(want, "ok:") || err == nil && got != want {
			q.lg.fail(k.idx, "dec-differs", api)
		}
		if err != nil {
			break
		}
	}
}

// Unmarshal into the target the goroutine keeps for this type: reset by the caller (objects behind pointers kept), it
// decodes like a fresh target in the same state; what the previous decode handed out (strings, byte slices) stays
func (q *ptSeq) tReuse(k *ptCall) {
	ti := k.r.Intn(len(q.tt))
	q.tReuse1(k, ti)
	q.tReuse1(k, ti)
}

func (q *ptSeq) tReuse1(k *ptCall, ti int) {
	const api = "thrift.Unmarshal.reuse"
	ln := k.lane
	t := q.tt[ti]
	v := ptThriftVal(k.r, t, q.size)
	p := thriftProto(thriftProtos[k.r.Intn(3)])
	wire, err := thrift.Marshal(p, v.Interface())
	if err != nil {
		q.lg.fail(k.idx, "error", "thrift.Marshal")
		return
	}
	in := q.lg.lend(api, k.idx, wire, 0)
	tg := ln.ttgt[ti]
	if tg == nil {
		tg = &ptTarget{ptr: reflect.New(t.Reflect())}
		ln.ttgt[ti] = tg
	} else {
		if tg.rec != nil {
			if showVal(t, tg.ptr.Elem(), false) != tg.rec.snap {
				q.lg.fail(tg.rec.call, "retained-changed", api)
			}
			tg.rec.dead = true
		}
		if k.r.Intn(3) == 0 {
			tg.ptr.Elem().Set(reflect.Zero(t.Reflect()))
		} else {
			ptKeep(tg.ptr.Elem())
		}
	}
	twin := deepCopy(tg.ptr.Elem())
	e1 := thrift.Unmarshal(p, in, tg.ptr.Interface())
	e2 := thrift.Unmarshal(p, ptClone(wire), twin.Addr().Interface())
	if (e1 == nil) != (e2 == nil) || e1 == nil && showVal(t, tg.ptr.Elem(), false) != showVal(t, twin, false) {
		q.lg.fail(k.idx, "reuse-differs", api)
	}
	tg.rec = nil
	if e1 == nil {
		tg.rec = q.lg.val(api, k.idx, t, tg.ptr)
	}
}

// Writer primitives into a caller buffer, then the Reader primitives that hand out memory
func (q *ptSeq) tReader(k *ptCall) {
	const api = "thrift.Reader"
	r := k.r
	p := thriftProto(thriftProtos[r.Intn(3)])
	var wb bytes.Buffer
	w := p.NewWriter(&wb)
	type item struct {
		kind int
		b    []byte
		n    int64
		m    thrift.Message
	}
	text := func() []byte {
		b := r.genBytes()
		if q.size > 0 && r.Intn(3) == 0 {
			b = bytes.Repeat([]byte("0123456789abcdef"), 1+r.Intn([]int{1, 20, 200, 5000}[q.size]))
		}
		return b
	}
	var items []item
	for i, n := 0, 2+r.Intn(8); i < n; i++ {
		it := item{kind: r.Intn(4)}
		var err error
		switch it.kind {
		case 0:
			it.b = text()
			err = w.WriteBytes(it.b)
		case 1:
			it.b = text()
			err = w.WriteString(string(it.b))
		case 2:
			it.n = int64(r.U64() >> uint(r.Intn(64)))
			err = w.WriteInt64(it.n)
		default:
			name := r.genBytes()
			for j := range name {
				name[j] = 'a' + name[j]%26
			}
			it.m = thrift.Message{Type: thrift.MessageType(1 + r.Intn(4)), Name: string(name), SeqID: int32(r.Intn(1 << 20))}
			err = w.WriteMessage(it.m)
		}
		if err != nil {
			q.lg.fail(k.idx, "error", "thrift.Writer")
			return
		}
		items = append(items, it)
	}
	q.lg.buffer("thrift.Writer", k.idx, wb.Bytes())
	q.lg.out("thrift.Writer", k.idx, q.lg.group(), ptOwned, wb.Bytes(), nil)
	in := q.lg.lend(api, k.idx, wb.Bytes(), r.Intn(3)*8)
	var src io.Reader = bytes.NewReader(in)
	if r.Intn(3) == 0 {
		src = &ptChunkReader{src: in, chunk: 1 + r.Intn(9)}
	}
	rd := p.NewReader(src)
	for _, it := range items {
		var err error
		ok := true
		switch it.kind {
		case 0:
			var b []byte
			b, err = rd.ReadBytes()
			ok = bytes.Equal(b, it.b)
			q.lg.out(api+".ReadBytes", k.idx, q.lg.group(), ptFresh, b, nil)
		case 1:
			var s string
			s, err = rd.ReadString()
			ok = s == string(it.b)
			q.lg.str(api+".ReadString", k.idx, q.lg.group(), s)
		case 2:
			var n int64
			n, err = rd.ReadInt64()
			ok = n == it.n
		default:
			var m thrift.Message
			m, err = rd.ReadMessage()
			ok = m == it.m
			q.lg.str(api+".ReadMessage", k.idx, q.lg.group(), m.Name)
		}
		if err != nil || !ok {
			q.lg.fail(k.idx, "mismatch", api)
			return
		}
	}
}

// ---- proto -----------------------------------------------------------------------------------------------------------------

func (q *ptSeq) pMarshal(k *ptCall) {
	const api = "proto.Marshal"
	t := q.pt[k.r.Intn(len(q.pt))]
	v := ptProtoVal(k.r, t, q.size)
	x := v.Interface()
	multi := hasMultiMap(t, v)
	q.lg.lendVal(api, k.idx, t, v)
	size := q.lg.num("proto.Size", k.idx, func() string { return strconv.Itoa(proto.Size(x)) })
	b, err := proto.Marshal(x)
	if err != nil {
		q.lg.fail(k.idx, "error", api)
		return
	}
	if size != strconv.Itoa(len(b)) {
		q.lg.fail(k.idx, "size-differs", "proto.Size")
	}
	dec := func(b []byte) string { return ptProtoShow(t, b) }
	q.lg.out(api, k.idx, q.lg.group(), ptFresh, b, nil)
	q.lg.pay(api, k.idx, b, dec)
	snap := ptClone(b)
	q.lg.replay(api, k.idx, func() string {
		if b2, err := proto.Marshal(x); err != nil || !ptSameWire(multi, b2, snap, dec) {
			return "not-repeatable"
		}
		return ""
	})
}

// MarshalTo: two messages back to back into the buffer of the goroutine (or into a buffer of their own), guard bytes behind
func (q *ptSeq) pMarshalTo(k *ptCall) {
	const api = "proto.MarshalTo"
	ln := k.lane
	for round := 0; round < 2; round++ {
		t := q.pt[k.r.Intn(len(q.pt))]
		v := ptProtoVal(k.r, t, q.size)
		x := v.Interface()
		multi := hasMultiMap(t, v)
		q.lg.lendVal(api, k.idx, t, v)
		size := proto.Size(x)
		want, err := proto.Marshal(x)
		if err != nil {
			q.lg.fail(k.idx, "error", "proto.Marshal")
			return
		}
		slack := k.r.Intn(3) * 4 // the slice passed is as long as the message or longer
		need := size + slack + 8
		if len(ln.mbuf)-ln.moff < need || k.r.Intn(4) == 0 {
			ln.mbuf = bytes.Repeat([]byte{ptGuard}, 2*need+k.r.Intn(200))
			ln.moff = 0
			q.lg.buffer(api, k.idx, ln.mbuf)
		}
		dst := ln.mbuf[ln.moff : ln.moff+size+slack]
		rest := ln.mbuf[ln.moff+size+slack:]
		n, err := proto.MarshalTo(dst, x)
		if err != nil || n != size {
			q.lg.fail(k.idx, "marshalto-differs", api)
			return
		}
		for _, c := range dst[n:] {
			if c != ptGuard {
				q.lg.fail(k.idx, "wrote-past-length", api)
				break
			}
		}
		for _, c := range rest {
			if c != ptGuard {
				q.lg.fail(k.idx, "wrote-past-length", api)
				break
			}
		}
		dec := func(b []byte) string { return ptProtoShow(t, b) }
		if !ptSameWire(multi, dst[:n], want, dec) {
			q.lg.fail(k.idx, "marshalto-differs", api)
		}
		ln.moff += n // the next message starts where this one ends
		q.lg.out(api, k.idx, q.lg.group(), ptOwned, dst[:n:n], nil)
		q.lg.pay(api, k.idx, dst[:n:n], dec)
		snap := ptClone(dst[:n])
		q.lg.replay(api, k.idx, func() string {
			b2 := make([]byte, len(snap)+3)
			if n2, err := proto.MarshalTo(b2, x); err != nil || n2 != len(snap) || !ptSameWire(multi, b2[:n2], snap, dec) {
				return "not-repeatable"
			}
			return ""
		})
	}
}

func (q *ptSeq) pUnmarshal(k *ptCall) {
	const api = "proto.Unmarshal"
	t := q.pt[k.r.Intn(len(q.pt))]
	v := ptProtoVal(k.r, t, q.size)
	wire, err := proto.Marshal(v.Interface())
	if err != nil {
		q.lg.fail(k.idx, "error", "proto.Marshal")
		return
	}
	in := q.lg.lend(api, k.idx, wire, k.r.Intn(3)*8)
	tgt := reflect.New(t.Reflect())
	if err := proto.Unmarshal(in, tgt.Interface()); err != nil {
		return
	}
	q.lg.val(api, k.idx, t, tgt)
}

// Unmarshal into the recycled target of the goroutine (slices cut to length 0, the rest cleared): like a fresh target in
// the same state; what the previous decode handed out stays
func (q *ptSeq) pReuse(k *ptCall) {
	ti := k.r.Intn(len(q.pt))
	q.pReuse1(k, ti)
	q.pReuse1(k, ti)
}

func (q *ptSeq) pReuse1(k *ptCall, ti int) {
	const api = "proto.Unmarshal.reuse"
	ln := k.lane
	t := q.pt[ti]
	v := ptProtoVal(k.r, t, q.size)
	if nilPtrInCollection(v) {
		return // a damaged stream (known): what it leaves in a target is not the subject
	}
	wire, err := proto.Marshal(v.Interface())
	if err != nil {
		q.lg.fail(k.idx, "error", "proto.Marshal")
		return
	}
	in := q.lg.lend(api, k.idx, wire, 0)
	tg := ln.ptgt[ti]
	if tg == nil {
		tg = &ptTarget{ptr: reflect.New(t.Reflect())}
		ln.ptgt[ti] = tg
	} else {
		if tg.rec != nil {
			if showVal(t, tg.ptr.Elem(), false) != tg.rec.snap {
				q.lg.fail(tg.rec.call, "retained-changed", api)
			}
			tg.rec.dead = true
		}
		if k.r.Intn(3) == 0 {
			tg.ptr.Elem().Set(reflect.Zero(t.Reflect()))
		} else {
			recycle(tg.ptr.Elem())
		}
	}
	twin := deepCopy(tg.ptr.Elem())
	e1 := proto.Unmarshal(in, tg.ptr.Interface())
	e2 := proto.Unmarshal(ptClone(wire), twin.Addr().Interface())
	if (e1 == nil) != (e2 == nil) || e1 == nil && showVal(t, tg.ptr.Elem(), false) != showVal(t, twin, false) {
		q.lg.fail(k.idx, "reuse-differs", api)
	}
	tg.rec = nil
	if e1 == nil {
		tg.rec = q.lg.val(api, k.idx, t, tg.ptr)
	}
}

// ptWire: a message as Marshal writes it, or records of the wire-level generator (every wire type), sometimes damaged
func (q *ptSeq) ptWire(r *H) []byte {
	switch r.Intn(4) {
	case 0:
		var b []byte
		for i, n := 0, 1+r.Intn(6); i < n; i++ {
			b = append(b, r.genWireRecord()...)
		}
		return b
	case 1:
		t := q.pt[r.Intn(len(q.pt))]
		b, _ := proto.Marshal(ptProtoVal(r, t, q.size).Interface())
		if len(b) > 0 {
			return r.mutate(b)
		}
		return b
	}
	t := q.pt[r.Intn(len(q.pt))]
	b, _ := proto.Marshal(ptProtoVal(r, t, q.size).Interface())
	return b
}

// Parse / Scan / RawValue / RawMessage: values and remainders are windows of the input, at the place the framing says
func (q *ptSeq) pParse(k *ptCall) {
	r := k.r
	in := q.lg.lend("proto.Parse", k.idx, q.ptWire(r), r.Intn(3)*8)
	g := q.lg.group()
	type rec struct {
		f proto.FieldNumber
		t proto.WireType
		v proto.RawValue
	}
	var parsed, scanned []rec
	rest := proto.RawMessage(in)
	var perr error
	for len(rest) != 0 && len(parsed) < 4000 {
		f, t, v, m, err := proto.Parse(rest)
		if err != nil {
			perr = err
			if !(ptWithin(m, in) || len(m) == 0) {
				q.lg.fail(k.idx, "outside-input", "proto.Parse")
			}
			break
		}
		if len(m) >= len(rest) || len(m) != 0 && subsliceOffset(rest, m) != len(rest)-len(m) {
			q.lg.fail(k.idx, "mismatch", "proto.Parse")
			break
		}
		if off := subsliceOffset(rest, v); off < 0 || off+len(v) > len(rest)-len(m) {
			q.lg.fail(k.idx, "outside-input", "proto.Parse")
		}
		q.lg.out("proto.Parse", k.idx, g, ptSub, v, in)
		q.lg.out("proto.Parse", k.idx, g, ptSub, m, in)
		parsed = append(parsed, rec{f, t, v})
		switch {
		case t == proto.Varint:
			v.Varint()
		case t == proto.Fixed32 && len(v) == 4:
			v.Fixed32()
		case t == proto.Fixed64 && len(v) == 8:
			v.Fixed64()
		}
		rest = m
	}
	serr := proto.Scan(in, func(f proto.FieldNumber, t proto.WireType, v proto.RawValue) (bool, error) {
		q.lg.out("proto.Scan", k.idx, g, ptSub, v, in)
		scanned = append(scanned, rec{f, t, v})
		return len(scanned) < 4000, nil
	})
	same := len(parsed) == len(scanned) && (perr == nil) == (serr == nil)
	for i := 0; same && i < len(parsed); i++ {
		a, b := parsed[i], scanned[i]
		same = a.f == b.f && a.t == b.t && len(a.v) == len(b.v) && (len(a.v) == 0 || &a.v[0] == &b.v[0])
	}
	if !same {
		q.lg.fail(k.idx, "mismatch", "proto.Scan")
	}
	// RawMessage: Unmarshal copies, Marshal fills the buffer of the caller, Rewrite appends
	var m proto.RawMessage
	m.Unmarshal(in)
	q.lg.out("proto.RawMessage.Unmarshal", k.idx, q.lg.group(), ptFresh, m, nil)
	dst := bytes.Repeat([]byte{ptGuard}, len(in)+8)
	q.lg.buffer("proto.RawMessage.Marshal", k.idx, dst)
	proto.RawMessage(in).Marshal(dst[:len(in)])
	q.lg.out("proto.RawMessage.Marshal", k.idx, q.lg.group(), ptOwned, dst, nil)
	if !bytes.Equal(dst[:len(in)], in) || !bytes.Equal(dst[len(in):], bytes.Repeat([]byte{ptGuard}, 8)) || proto.RawMessage(in).Size() != len(in) {
		q.lg.fail(k.idx, "mismatch", "proto.RawMessage.Marshal")
	}
	out, _ := proto.RawMessage(in).Rewrite(nil, nil)
	q.lg.out("proto.RawMessage.Rewrite", k.idx, q.lg.group(), ptFresh, out, nil)
	if !bytes.Equal(out, in) {
		q.lg.fail(k.idx, "mismatch", "proto.RawMessage.Rewrite")
	}
}

// FieldNumber.* build messages of their own; Append* append to the message of the caller
func (q *ptSeq) pAppend(k *ptCall) {
	r := k.r
	f := proto.FieldNumber(1 + r.Intn(3000))
	text := r.genBytes()
	if q.size > 0 && r.Intn(2) == 0 {
		text = bytes.Repeat([]byte("fedcba9876543210"), 1+r.Intn([]int{1, 20, 200, 5000}[q.size]))
	}
	q.lg.lendRO("proto.FieldNumber", k.idx, text)
	u := r.U64() >> uint(r.Intn(64))
	made := []proto.RawMessage{f.Bool(u&1 == 1), f.Int(int(u)), f.Int32(int32(u)), f.Int64(int64(u)), f.Uint(uint(u)), f.Uint32(uint32(u)),
		f.Uint64(u), f.Fixed32(uint32(u)), f.Fixed64(u), f.Float32(float32(u)), f.Float64(float64(u)), f.String(string(text)), f.Bytes(text),
		f.Value(string(text)), f.Value(text), f.Value(int64(u))}
	for _, m := range made {
		q.lg.out("proto.FieldNumber", k.idx, q.lg.group(), ptFresh, m, nil)
		if fn, _, _, rest, err := proto.Parse(m); err != nil || fn != f || len(rest) != 0 {
			q.lg.fail(k.idx, "mismatch", "proto.FieldNumber")
		}
	}
	// onto a message of the caller: with room (stays in the buffer of the caller) and without (moves to memory of its own)
	for round := 0; round < 2; round++ {
		pre := append(make([]byte, 0, 8+r.Intn(2)*(len(text)+64)), made[r.Intn(len(made))]...)
		if len(pre) > 8 && round == 0 {
			pre = pre[:8:8]
		}
		snap := ptClone(pre)
		q.lg.buffer("proto.Append", k.idx, pre)
		var m proto.RawMessage
		switch r.Intn(5) {
		case 0:
			m = proto.AppendVarint(pre, f, u)
		case 1:
			m = proto.AppendVarlen(pre, f, text)
		case 2:
			m = proto.AppendFixed32(pre, f, uint32(u))
		case 3:
			m = proto.AppendFixed64(pre, f, u)
		default:
			m = proto.Append(pre, f, proto.Varlen, text)
		}
		if !bytes.Equal(pre, snap) || !bytes.HasPrefix(m, snap) || len(m) <= len(pre) {
			q.lg.fail(k.idx, "mismatch", "proto.Append")
		}
		class := ptFresh
		if ptWithin(m, pre[:cap(pre)]) {
			class = ptOwned
		}
		q.lg.out("proto.Append", k.idx, q.lg.group(), class, m, nil)
	}
}

func (q *ptSeq) ptRecord(r *H, num int) []byte {
	f := proto.FieldNumber(num)
	switch r.Intn(4) {
	case 0:
		return proto.AppendVarint(nil, f, r.U64()>>uint(r.Intn(64)))
	case 1:
		n := r.Intn(6)
		if q.size > 0 && r.Intn(3) == 0 {
			n = r.Intn([]int{1, 300, 3000, 70000}[q.size])
		}
		return proto.AppendVarlen(nil, f, r.Bytes(n))
	case 2:
		return proto.AppendFixed32(nil, f, uint32(r.U64()))
	}
	return proto.AppendFixed64(nil, f, r.U64())
}

// ptRewrites applies rw to every input: into nil twice (two results of their own, the same bytes) and behind a prefix in a
// buffer of the caller; the rewriter is then kept by the goroutine and applied again by a later call
func (q *ptSeq) ptRewrites(k *ptCall, api string, rw proto.Rewriter, inputs [][]byte) {
	r := k.r
	for _, doc := range inputs {
		in := q.lg.lend(api, k.idx, doc, r.Intn(2)*8)
		if len(doc) == 0 && r.Intn(2) == 0 {
			in = nil
		}
		out, err := rw.Rewrite(nil, in)
		if err != nil {
			continue
		}
		q.lg.out(api, k.idx, q.lg.group(), ptFresh, out, nil)
		out2, err2 := rw.Rewrite(nil, in)
		q.lg.out(api, k.idx, q.lg.group(), ptFresh, out2, nil)
		pre := append(make([]byte, 0, 2+r.Intn(2)*(2*len(out)+16)), 0xde, 0xad)
		q.lg.buffer(api, k.idx, pre)
		out3, err3 := rw.Rewrite(pre, in)
		if err2 != nil || err3 != nil || !bytes.Equal(out2, out) || len(out3) < 2 || !bytes.Equal(out3[2:], out) || !bytes.Equal(pre, []byte{0xde, 0xad}) ||
			!bytes.Equal(out3[:2], pre) {
			q.lg.fail(k.idx, "rewrite-differs", api)
		}
		class := ptFresh
		if ptWithin(out3, pre[:cap(pre)]) {
			class = ptOwned
		}
		q.lg.out(api, k.idx, q.lg.group(), class, out3, nil)
		snap, doc := ptClone(out), ptClone(doc)
		q.lg.replay(api, k.idx, func() string {
			if o, err := rw.Rewrite(nil, doc); err != nil || !bytes.Equal(o, snap) {
				return "not-repeatable"
			}
			return ""
		})
	}
}

// a MessageRewriter assembled from RawMessage leaves, MultiRewriters and nested MessageRewriters
func (q *ptSeq) pRewrite(k *ptCall) {
	const api = "proto.Rewriter.Rewrite"
	r := k.r
	ln := k.lane
	nums := []int{1, 2, 3, 15, 16, 17, 127, 128, 2047, 2048}
	leaf := func(n int) proto.Rewriter {
		b := q.ptRecord(r, n)
		q.lg.lendRO(api, k.idx, b)
		return proto.RawMessage(b)
	}
	var tnums []int
	rw := ln.rw
	if rw == nil || r.Intn(3) != 0 {
		mr := make(proto.MessageRewriter, 2049)
		for i, n := 0, 1+r.Intn(4); i < n; i++ {
			num := nums[r.Intn(len(nums))]
			tnums = append(tnums, num)
			switch r.Intn(5) {
			case 0:
				mr[num] = proto.MultiRewriter(leaf(num), leaf(num))
			case 1:
				mr[num] = proto.MultiRewriter()
			case 2:
				mr[num] = proto.MultiRewriter(leaf(num), proto.MultiRewriter(), proto.MultiRewriter(leaf(num), leaf(num)))
			default:
				mr[num] = leaf(num)
			}
		}
		rw = mr
		ln.rw = rw
	}
	var inputs [][]byte
	for i, n := 0, 2+r.Intn(2); i < n; i++ {
		var in []byte
		for j, m := 0, r.Intn(8); j < m; j++ {
			num := nums[r.Intn(len(nums))]
			if len(tnums) > 0 && r.Intn(2) == 0 {
				num = tnums[r.Intn(len(tnums))]
			}
			in = append(in, q.ptRecord(r, num)...)
		}
		inputs = append(inputs, in)
	}
	q.ptRewrites(k, api, rw, inputs)
}

// a rewriter compiled from a JSON template of a message type
func (q *ptSeq) pTemplate(k *ptCall) {
	const api = "proto.Rewriter.Rewrite.template"
	r := k.r
	t := q.mt[r.Intn(len(q.mt))]
	v2 := r.genVal(t, 0)
	jsonSafeStrings(v2)
	r.nonZeroCollections(t, v2)
	if nilPtrInCollection(v2) {
		return
	}
	mask := r.U64()
	st := baseOf(t)
	sel := func(p string) bool {
		for i, f := range st.Fields {
			if len(p) > len(f.Name) && p[1:1+len(f.Name)] == f.Name && (len(p) == 1+len(f.Name) || p[1+len(f.Name)] == '/') {
				return mask&(1<<uint(i)) != 0
			}
		}
		return false
	}
	tmpl := []byte(tmplJSON(t, v2, sel, ""))
	q.lg.lendRO("proto.ParseRewriteTemplate", k.idx, tmpl)
	ty := proto.TypeOf(t.Reflect())
	rw, err := proto.ParseRewriteTemplate(ty, tmpl)
	if err != nil {
		return
	}
	var inputs [][]byte
	for i := 0; i < 2; i++ {
		v := ptProtoVal(r, t, q.size)
		if nilPtrInCollection(v) {
			continue
		}
		b, _ := proto.Marshal(v.Interface())
		if r.Intn(2) == 0 {
			b = splitSubMessages(t, b) // singular sub-messages arrive in two occurrences (merged by the rewriter)
		}
		inputs = append(inputs, b)
	}
	inputs = append(inputs, nil)
	q.ptRewrites(k, api, rw, inputs)
}

func ptDescribe(t proto.Type, depth int, seen map[proto.Type]bool) (s string) {
	defer func() {
		if e := recover(); e != nil {
			s += "!panic"
		}
	}()
	s = t.Name() + "/" + t.String() + "/" + strconv.Itoa(int(t.Kind())) + "/" + strconv.Itoa(int(t.WireType()))
	switch t.Kind() {
	case proto.Map:
		s += "<" + ptDescribe(t.Key(), depth+1, seen) + "," + ptDescribe(t.Elem(), depth+1, seen) + ">"
	case proto.Struct:
		if seen[t] || depth > 5 {
			return s + "{…}"
		}
		seen[t] = true
		for i := 0; i < t.NumField(); i++ {
			f := t.Field(i)
			s += fmt.Sprintf("{%d %d %s %v %s}", f.Index, f.Number, f.Name, f.Repeated, ptDescribe(f.Type, depth+1, seen))
			if g := t.FieldByNumber(f.Number); g.Name != f.Name || g.Type != f.Type {
				s += "!bynumber"
			}
			if g := t.FieldByName(f.Name); g.Number != f.Number {
				s += "!byname"
			}
		}
		delete(seen, t)
	}
	return s
}

// TypeOf: the same Type for the same Go type, describing the same message, whatever ran in between
func (q *ptSeq) pTypeOf(k *ptCall) {
	const api = "proto.TypeOf"
	all := append(append([]*Ty{}, q.pt...), q.mt...)
	t := all[k.r.Intn(len(all))]
	rt := t.Reflect()
	var first proto.Type
	get := func() (s string) {
		defer func() {
			if e := recover(); e != nil {
				s = "panic"
			}
		}()
		ty := proto.TypeOf(rt)
		if first == nil {
			first = ty
		}
		if ty != first {
			return "another-type"
		}
		return ptDescribe(ty, 0, map[proto.Type]bool{})
	}
	q.lg.num(api, k.idx, get)
}

// ---- running a sequence ------------------------------------------------------------------------------------------------------

type ptChurnT struct {
	A int64             `thrift:"1"`
	S string            `thrift:"2"`
	B []byte            `thrift:"3"`
	L []int32           `thrift:"4"`
	M map[string]string `thrift:"5"`
}

// ptChurn makes both packages reuse whatever they pool or cache, on this goroutine and on three more.
func ptChurn(seed uint64) {
	one := func(g int) {
		for i := 0; i < 6; i++ {
			v := ptChurnT{A: int64(seed) + int64(g), S: string(bytes.Repeat([]byte{'s'}, []int{3, 40, 700, 9000, 70000, 20}[i])), B: bytes.Repeat([]byte{byte(g)}, 50*i),
				L: []int32{1, 2, int32(i)}, M: map[string]string{"k": "v"}}
			for _, pn := range thriftProtos {
				p := thriftProto(pn)
				b, _ := thrift.Marshal(p, v)
				var back ptChurnT
				thrift.Unmarshal(p, b, &back)
				var sb bytes.Buffer
				enc := thrift.NewEncoder(p.NewWriter(&sb))
				enc.Encode(v)
				enc.Encode(&v)
				thrift.NewDecoder(p.NewReader(&sb)).Decode(&back)
			}
			b, _ := proto.Marshal(v)
			var back ptChurnT
			proto.Unmarshal(b, &back)
			proto.MarshalTo(make([]byte, proto.Size(&v)), &v)
			proto.Scan(b, func(proto.FieldNumber, proto.WireType, proto.RawValue) (bool, error) { return true, nil })
		}
	}
	var wg sync.WaitGroup
	for g := 1; g <= 3; g++ {
		wg.Add(1)
		go func(g int) {
			defer wg.Done()
			one(g)
		}(g)
	}
	one(0)
	wg.Wait()
}

type ptKind struct {
	weight int
	f      func(q *ptSeq, k *ptCall)
}

var ptThriftKinds = []ptKind{
	{5, (*ptSeq).tMarshal}, {2, (*ptSeq).tCross}, {4, (*ptSeq).tEncoder}, {3, (*ptSeq).tUnmarshal}, {3, (*ptSeq).tDecoder}, {3, (*ptSeq).tReuse},
	{2, (*ptSeq).tReader},
}

var ptProtoKinds = []ptKind{
	{5, (*ptSeq).pMarshal}, {4, (*ptSeq).pMarshalTo}, {3, (*ptSeq).pUnmarshal}, {3, (*ptSeq).pReuse}, {3, (*ptSeq).pParse}, {1, (*ptSeq).pAppend},
	{2, (*ptSeq).pRewrite}, {2, (*ptSeq).pTemplate}, {1, (*ptSeq).pTypeOf},
}

func ptPick(r *H, ks []ptKind) func(q *ptSeq, k *ptCall) {
	total := 0
	for _, k := range ks {
		total += k.weight
	}
	n := r.Intn(total)
	for _, k := range ks {
		if n < k.weight {
			return k.f
		}
		n -= k.weight
	}
	return ks[0].f
}

// ptRetain runs one sequence; mainly calls of package pkg ("thrift" or "proto"), a fifth of the other one.
func ptRetain(pkg string, seed uint64, size int) string {
	r := &H{rng: seed, Stats: map[string]int64{}}
	q := &ptSeq{lg: &ptLog{}, size: size}
	for i, n := 0, 2+r.Intn(2); i < n; i++ {
		t := r.genThriftStruct(0)
		t.Reflect()
		q.tt = append(q.tt, t)
	}
	for i, n := 0, 2+r.Intn(2); i < n; i++ {
		t := r.genProtoStruct(0, r.Intn(3) == 0)
		if r.Intn(3) == 0 {
			t = &Ty{K: "ptr", Elem: t}
		}
		t.Reflect()
		q.pt = append(q.pt, t)
	}
	for i := 0; i < 2; i++ {
		t := r.genTmplStruct(0)
		t.Reflect()
		q.mt = append(q.mt, t)
	}
	lanes := make([]*ptLane, 3)
	for i := range lanes {
		lanes[i] = &ptLane{ttgt: map[int]*ptTarget{}, ptgt: map[int]*ptTarget{}}
	}
	own, other := ptThriftKinds, ptProtoKinds
	if pkg == "proto" {
		own, other = other, own
	}
	for i, n := 1, 6+r.Intn(15); i <= n; i++ {
		ks := own
		if r.Intn(5) == 0 {
			ks = other
		}
		ln := lanes[0]
		if x := r.Intn(5); x >= 3 {
			ln = lanes[x-2] // two calls in five run on one of the two other goroutines
		}
		ln.calls = append(ln.calls, &ptCall{idx: i, lane: ln, r: &H{rng: r.U64(), Stats: map[string]int64{}}, f: ptPick(r, ks)})
	}
	run := func(ln *ptLane) {
		for _, k := range ln.calls {
			func() {
				defer func() {
					if e := recover(); e != nil {
						q.lg.fail(k.idx, "panic", "call")
					}
				}()
				k.f(q, k)
			}()
		}
	}
	var wg sync.WaitGroup
	for _, ln := range lanes[1:] {
		wg.Add(1)
		go func(ln *ptLane) {
			defer wg.Done()
			run(ln)
		}(ln)
	}
	run(lanes[0])
	wg.Wait()

	lg := q.lg
	ptChurn(seed)
	lg.phase = 1
	lg.checkHomes()
	lg.phase = 2
	lg.checkRetained("retained-changed", false)
	lg.phase = 3
	lg.checkPayloads()
	lg.phase = 4
	lg.checkAlias()
	lg.phase = 5
	lg.overwrite()
	lg.checkRetained("changed-with-input", true)
	lg.phase = 6
	lg.scribble()
	for _, rp := range lg.replays {
		if what := rp.get(); what != "" {
			lg.fail(rp.call, what, rp.api)
		}
	}
	return lg.verdict()
}

func init() {
	for _, pkg := range []string{"thrift", "proto"} {
		pkg := pkg
		ops[pkg+".retain"] = func(a []string) (string, string, string) {
			seed, _ := strconv.ParseUint(a[0], 10, 64)
			return ptRetain(pkg, seed, atoi(a[1])), "ok", ""
		}
	}
}

// ptRetainCases: the sequences of one package at every size class.
func (h *H) ptRetainCases(op string) {
	per := []int{380, 230, 70, 12}
	if h.Thorough() {
		per = []int{3800, 2300, 700, 120}
	}
	for size, n := range per {
		for i := 0; i < n; i++ {
			h.DoRisky(op, strconv.FormatUint(h.U64(), 10), strconv.Itoa(size))
		}
	}
}
