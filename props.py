"""per-property configuration for /verif/check"""

V_DEFAULT = [{"name": "default", "tags": "verif"}]

PROPS = {
    "C20": dict(
        lean_modules=["Enc.Props.C20"],
        variants=[{"name": "default", "tags": "verif"}, {"name": "purego", "tags": "verif purego"}],
        areas=["ascii.", "asmascii."],
        allowed_native=["Enc.Lemmas.Ascii"],
        main_theorem="Enc.Props.C20.validString_spec / validPrintString_spec / equalFoldString_spec (portable algorithm), asmValidString_spec / asmValidPrintString_spec / asmEqualFoldString_spec (amd64 kernels, both CPU settings), asm_eq_purego_*",
        rule="exhaustive in-process sweep (every length 0..L, 16 alignments, every position of one deviating byte, "
             "17..256 deviating values; all byte pairs at block boundaries for EqualFold; every prefix/suffix split) in BOTH the "
             "assembly and the purego build against the byte-wise definition; a ~1/4000 sample + all byte/rune predicate cases go "
             "through the Lean driver (impl = model = spec). distinct = distinct (op,args) line; non-trivial = non-empty input",
        trusted_base=["the amd64 kernels of segmentio/asm are modelled by hand, label by label (Enc/Model/AsciiAsm.lean); their immediates, "
                      "displacements, mnemonics and instruction text are regenerated from the .s files on every run (tools/asmconsts) and pinned "
                      "by decide facts; the lane semantics of the ~15 instructions used are hand-written from the Intel SDM",
                      "ops asmascii.*: the real kernels run with and without the AVX2 bit of cpu.X86 against the model (both settings)"],
        assumptions=["theorems are about the algorithms of segmentio/asm@go.mod version; lengths < 2^63; in-bounds-ness of each load is implied by "
                     "the proof invariants, not stated as a theorem"],
    ),
    "C03": dict(
        lean_modules=["Enc.Props.C03"],
        variants=V_DEFAULT,
        areas=["proto."],
        allowed_native=["Enc.Lemmas.Proto"],
        main_theorem="Enc.Props.C03.Size_eq_len_Marshal, unmarshal_marshal, unmarshal_marshal_partial, unmarshal_marshal_map_partial; unmarshal_marshal_*_named / *_ptrs / *_opaque (named types, byte arrays, []*T, **T, opaque user message types); marshalTo/size under the user contract",
        rule="random message types (reflect.StructOf: scalars, byte arrays, RawMessage, nested/pointer structs, repeated, maps, "
             "protobuf struct tags with numbers/zigzag/fixed) x random values (integer width boundaries, float bit patterns, "
             "nil vs empty, collection sizes around the cap-10 growth); ops: Marshal (bytes+Size vs Lean model, byte for byte), "
             "round trip Unmarshal(Marshal(v)) vs canon(v) and vs the Lean reference decoder, second Marshal for determinism; "
             "varint/zigzag primitives at every 7-bit boundary. distinct = distinct (op,args) line",
        trusted_base=["inline flag / unsafe pointer representation / recursive types are not modelled (harness only)"],
        assumptions=["Ty/Val universe: finite trees (no recursive message types); user Message implementers represented by RawMessage"],
    ),
    "C12": dict(
        lean_modules=["Enc.Props.C12"],
        variants=V_DEFAULT, areas=["proto."], allowed_native=["Enc.Lemmas.Proto"],
        main_theorem="Enc.Props.C12.struct_bytes(_maps), reference_decodes_marshal(_partial, _maps_partial), unmarshal_of_reference_decode(_maps_partial), unmarshal_iff_reference_decode; struct_bytes_*_named / *_ptrs / *_opaque, reference_decodes_marshal_*_named / *_ptrs / *_opaque, unmarshal_iff_reference_decode_named (noArr)",
        rule="random message types x values: (1) Marshal's bytes decoded by the Lean reference decoder (written from the protobuf "
             "encoding spec) must give the same field values; (2) legal re-encodings built by an independent wire-level "
             "re-encoder (field order shuffled, non-minimal varints in tags/lengths/values, embedded messages split in two "
             "occurrences, an earlier decoy occurrence of a scalar) must Unmarshal to the same values; impl vs model vs spec",
        trusted_base=["Spec.Protobuf is the reference implementation (no protobuf library offline): written from the public spec"],
        assumptions=["packed repeated scalars excluded (as the property says)"],
    ),
    "C16": dict(
        lean_modules=["Enc.Props.C16"],
        variants=V_DEFAULT, areas=["proto."], allowed_native=["Enc.Lemmas.Proto"],
        main_theorem="Enc.Props.C16.marshalTo_spec; marshalTo_opaque, marshalTo_opaque_enough, marshalTo_opaque_short",
        rule="random message types x values x EVERY buffer length 0..Size+3 (sampled above 400 bytes in the quick tier, always "
             "including Size-2..Size+1) with 0xEE guard bytes from len to cap: count, bytes, error class, guard bytes; "
             "impl vs model (Enc.Model.Proto.encodeTo) vs the statement of the property",
        trusted_base=["guard bytes observe writes past len(b); writes are not modelled byte-by-byte on the error path"],
        assumptions=[],
    ),
    "C07": dict(
        lean_modules=["Enc.Props.C07"],
        variants=V_DEFAULT, areas=["proto."], allowed_native=["Enc.Lemmas.Proto"],
        main_theorem="Enc.Props.C07.unmarshal_ne_panic, unmarshal_skip_front, unmarshal_skip_anywhere, decode_bound, limit_only_adds_an_error, depth_limit, deep_rejected, max_depth_accepted, parse_total, scan_total, scan_eq_records, scan_truncated, scan_matches_unmarshal_partial; alloc_bound (allocation-accounting decoder: every type, every input, error paths included), decodeA_proj",
        rule="for random message types x values: every prefix of a valid encoding, 6 mutations, unknown fields of every wire "
             "type (numbers up to 2^29-1, nested) inserted at every top-level boundary, Scan/Parse vs an independent wire "
             "parser, allocation measured against K*len; plus adversarial byte strings (huge lengths, 8-13 byte varints). "
             "All decodes run in a supervised child process (fatal errors and hangs become observables)",
        trusted_base=["allocation measured with runtime.MemStats.TotalAlloc in the worker"],
        assumptions=[],
    ),
    "C18": dict(
        lean_modules=["Enc.Props.C18"],
        variants=V_DEFAULT, areas=["iso8601."], allowed_native=["Enc.Lemmas.Iso"],
        main_theorem="Enc.Props.C18 (fast path = byte-wise definition; Valid = grammar)",
        rule="Parse vs time.Parse(RFC3339Nano): every calendar date of sampled (quick) / all (thorough) years 0000-9999 incl. the "
             "first invalid day of each month, every second of a day incl. 24/60/60, EVERY byte value at EVERY position of "
             "20 templates of every length 20..31 (fraction 0..11 digits, ',' fraction, 1-digit hour, zones), all deletions "
             "and insertions, zone hour/minute grid, random mutations; json.Unmarshal into time.Time. Valid: 32 flag subsets x "
             "grammar-directed strings with one-edit mutations vs a regexp built from the property's grammar, allocation count. "
             "in-process comparison with the oracle, a sample through the Lean driver (impl = model = spec)",
        trusted_base=["time.Parse of the installed Go toolchain is the oracle for Parse (called in-process)",
                      "the fall-through call to time.Parse is a call-through in the model (M = '-' there)"],
        assumptions=[],
    ),
    "C04": dict(
        lean_modules=["Enc.Props.C04"],
        variants=V_DEFAULT, areas=["thrift."], allowed_native=["Enc.Lemmas.Thrift"],
        trusted_base=["Spec.Thrift is the reference implementation (no Apache Thrift library offline): written from the public "
                      "binary/compact protocol specifications", "io.Reader plumbing is modelled as reading from a byte list"],
        assumptions=["union fields, embedded-struct flattening and unsigned kinds are outside the modelled universe"],
        main_theorem="Enc.Props.C04.unmarshal_marshal, unmarshal_marshal_exact, protocols_agree; union_bytes, union_round_trip, union_last_member_wins, union_zero_member_ambiguous_iff, embedded_eq_flat, embedded_decode_eq_flat, index_paths_independent",
        rule="random struct types (ids in any order, gaps >15, spans >64, required/optional/enum, nested, pointers, lists, sets, "
             "maps) x random values x {binary strict, binary non-strict, compact}: Unmarshal(Marshal(v)) vs canon(v), bytes vs "
             "the Lean model, cross-protocol equality of decoded values, Encoder/Decoder.Reset vs fresh",
    ),
    "C08": dict(
        lean_modules=["Enc.Props.C08"],
        variants=V_DEFAULT, areas=["thrift."], allowed_native=["Enc.Lemmas.Thrift"],
        trusted_base=["Spec.Thrift is the reference implementation (no Apache Thrift library offline): written from the public "
                      "binary/compact protocol specifications", "io.Reader plumbing is modelled as reading from a byte list"],
        assumptions=["union fields, embedded-struct flattening and unsigned kinds are outside the modelled universe"],
        main_theorem="Enc.Props.C08.unmarshal_total, unmarshal_trunc, unmarshal_append_trailing, skip_consumes_exactly; mismatch_skipped, depth_limit(_exact), delta_stop_rejected, unmarshalU_total / _trunc / _append_trailing (union types), unmarshalUE_total, thrift_alloc_unbounded (the known finding as a theorem)",
        rule="for random types x values x 3 protocols: truncation at EVERY offset (error class must be unexpected-EOF, EOF only "
             "for empty input), trailing byte, unknown field of every thrift type (nested structs, lists, maps, sets, compact "
             "bool-in-header) inserted before the stop field, 4 mutations in strict/non-strict mode, allocation vs K*len; "
             "directed: missing required field, strict type mismatch, huge declared sizes; all in a supervised child process",
    ),
    "C13": dict(
        lean_modules=["Enc.Props.C13"],
        variants=V_DEFAULT, areas=["thrift."], allowed_native=["Enc.Lemmas.Thrift"],
        trusted_base=["Spec.Thrift is the reference implementation (no Apache Thrift library offline): written from the public "
                      "binary/compact protocol specifications", "io.Reader plumbing is modelled as reading from a byte list"],
        assumptions=["union fields, embedded-struct flattening and unsigned kinds are outside the modelled universe"],
        main_theorem="Enc.Props.C13.encode_compact_eq_spec, encode_binary_eq_spec_mod, accept_unmarshal; union_bytes_eq_spec, compact_message_roundtrip, writer_never_delta_stop",
        rule="random types x values x 3 protocols: Marshal's bytes vs the Lean model (byte for byte) and vs the Lean reference "
             "encoder written from the Apache specifications; compact long-form re-encodings (field headers, list headers) must "
             "decode to the same value; message headers for every type/name/seqid class",
    ),
    "C05": dict(
        lean_modules=["Enc.Props.C05", "Enc.Props.C14Raw"],
        variants=V_DEFAULT, areas=["json.parse", "json.skipSpaces", "json.Valid", "json.internalParseFlags", "json.decoder_parse",
                                   "json.encoder_encodeRawMessage", "json.encoder_encodeJSONMarshaler", "json.decoder_decodeArray",
                                   "json.decoder_decodeRawMessage", "json.hasNullPrefix", "json.hasTruePrefix", "json.hasFalsePrefix"],
        allowed_native=["Enc.Lemmas.Json", "Lemmas.JsonScan", "Enc.Lemmas.JsonScan"],
        main_theorem="Enc.Props.C05.valid_eq_std (Valid = encoding/json.Valid = RFC 8259 with nesting <= 10000, for every byte string), deep_rejected, max_depth_accepted",
        rule="EXHAUSTIVE over a 26-symbol alphabet of JSON-significant byte classes: all strings of length <= 3 (quick) / 4 (thorough) "
             "plus random longer ones, each pushed through Valid and every syntax-only consumer (RawMessage encode, MarshalJSON "
             "output, RawMessage decode, skipped struct field, surplus array slot, nested skip, Decoder framing) and compared with "
             "encoding/json; generated documents with one-edit mutations; strings with a special byte at every offset 0..20 "
             "(8/16-byte quote windows); nesting 1..300000 (arrays, objects, mixed; 6,000,000 in the thorough tier) through Valid, Unmarshal into 7 target "
             "types and the Decoder; a sample through the Lean driver (impl = model = RFC grammar with depth limit)",
        trusted_base=["encoding/json of the installed toolchain is the oracle for the composite consumers (called in-process)"],
        assumptions=[],
    ),
    "C11": dict(
        lean_modules=["Enc.Props.C11"],
        variants=V_DEFAULT, areas=["json.Decoder", "json.Parse", "json.skipSpaces", "json.decoder_parse"],
        allowed_native=["Enc.Lemmas.Json", "Lemmas.JsonScan"],
        main_theorem="Enc.Props.C11.decodeAll_eq_spec, chunking_independent, decodeAll_failing_intended, inputOffset_monotone, inputOffset_bounds, buffered_conserves, parse_remainder",
        rule="value sequences with members placed to straddle / end exactly at offsets 4096, 32768, 36864, 65536 x chunkings "
             "{single read, 1-byte reads, primes, exactly-to-the-edge with zero-length reads, random} x {clean EOF, data delivered "
             "with EOF, terminal non-EOF error at a chunk boundary, data delivered with that error}; short streams cut at every "
             "offset; observables: raw values, end class (EOF / error / reader's error), InputOffset bounds and monotonicity, "
             "Buffered()+unread = unconsumed; oracle: encoding/json.Decoder on one clean read; model: Enc.Model.Json.Stream; "
             "Parse remainder vs encoding/json InputOffset",
        trusted_base=["encoding/json.Decoder on a single clean read is the oracle (in-process)"],
        assumptions=["the scripted reader repeats its terminal condition once the script is over (as io.Reader implementations do)"],
    ),
    "C17": dict(
        lean_modules=["Enc.Props.C17"],
        variants=V_DEFAULT, areas=["json.Tokenizer", "json.stack", "json.acquireStack", "json.releaseStack", "json.RawValue", "json.decoder_parse"],
        allowed_native=["Enc.Lemmas.Json", "Lemmas.JsonScan"],
        main_theorem="Enc.Props.C17 (token stream = grammar-directed specification); kind_is_class, string_value, int_value, uint_value, float_literal, accessors_eq_spec",
        rule="grammar-directed documents (empty containers inside non-empty ones, keys after nested objects, depth <= 12, "
             "white-space variants) + one-edit mutations + arbitrary byte strings over the JSON alphabet: full token stream "
             "(delim, value span, depth, index, IsKey, Remaining) vs the Lean model; for valid documents vs the Lean "
             "grammar-directed specification and, in-process, vs encoding/json's Decoder.Token stream (positions, decoded "
             "String/Int/Uint/Float/Bool/Kind), concatenation = Compact(doc), Reset after abandonment with a dirty pooled stack",
        trusted_base=["encoding/json token stream as in-process oracle for decoded values"],
        assumptions=[],
    ),
    "C19": dict(
        lean_modules=["Enc.Props.C19"],
        variants=V_DEFAULT, areas=["proto.MessageRewriter", "proto.multiRewriter", "proto.embddedRewriter", "proto.makeFieldset", "proto.fieldset",
                                   "proto.parseRewriteTemplate", "proto.ParseRewriteTemplate", "proto.bitOrRW", "proto.BitOr", "proto.Append", "proto.Parse",
                                   "proto.RawMessage"],
        allowed_native=["Enc.Lemmas.Proto"],
        main_theorem="Enc.Props.C19.rewrite_spec, rewrite_spec_exact, untemplated_fields_kept, rewrite_never_panics; template_tree_is_rw, template_leaf_value (15 kinds), template_rewrite_value_flat / _nested / _spec, template_rewrite_value_bitor_flat, bitor_zigzag_wrong, bitor_first_occurrence_wrong",
        rule="(1) MessageRewriters assembled from RawMessage / Multi leaves at field numbers 1..70000 (incl. 255/256/257/4095/65535/"
             "65536) x inputs where templated numbers are absent / occur once / repeatedly, interleaved with other fields and "
             "mutated: output bytes vs the Lean model, parsed records vs the Lean record-level specification, input untouched, "
             "appended after an existing prefix; (2) rewrite templates for random message types (scalars, bytes, strings, "
             "embedded structs, repeated scalars, string maps, tagged numbers up to 65535) x original value x template value x "
             "field subset: decoded output vs a reflect-based oracle (templated fields replaced, others kept), template and "
             "input bytes unchanged; (3) BitOr rules on int32/int64/uint32/uint64/sint64/fixed64 fields",
        trusted_base=["reflect-based oracle for template semantics (harness/c19.go)"],
        assumptions=["template generation avoids zero map values and NaN/Inf/-0 (not representable / documented no-ops)"],
    ),
    "C01": dict(
        lean_modules=["Enc.Props.C01", "Enc.Props.C01Fields", "Enc.Props.C01Codec", "Enc.Props.C01MapKeys", "Enc.Props.C01Omit", "Enc.Props.C01Inlined", "Enc.Props.C01Float", "Enc.Props.C01Typed", "Enc.Props.C14Raw"],
        variants=V_DEFAULT, areas=["json.encoder", "json.escapeIndex", "json.formatInteger", "json.appendInt", "json.appendUint", "json.constructCodec",
                                   "json.appendStructFields", "json.emptyFuncOf", "json.inlined", "json.constructMapCodec", "json.Marshal", "json.Append",
                                   "json.Encoder", "json.Escape", "json.AppendEscape", "json.appendCompactEscapeHTML", "json.constructStructType",
                                   "json.below", "json.contains", "json.expand", "json.escapeByteRepr", "json.isValidTag", "json.intStringsAreSorted"],
        allowed_native=["Enc.Lemmas.Json", "Lemmas.Json"],
        main_theorem="Enc.Props.C01.encodeString_eq, formatInteger_eq (scalar encoders = encoding/json transcription); C01Fields.segFields_eq_stdFields; C01Codec.choose_terminates, marshaler_order_eq_std, choose_eq_std_partial, cache_history_independent; C01MapKeys.intStringsAreSorted_eq, uintStringsAreSorted_eq, encodeIntKeyMap_eq_std; C01Omit.isEmpty_eq_std; C01Inlined.inlined_eq; C01Float.encodeFloat_eq_std, format_choice; C14Raw.rawEmit_eq_std, marshaler_eq_std",
        rule="(a) scalar layer through the Lean driver: strings with an escapable byte at every offset 0..24 relative to the 8-byte "
             "scan x {EscapeHTML on/off}, U+2028/9 and invalid UTF-8 forms, random strings; integers at every power of 2 and 10 "
             "boundary; Escape/AppendEscape; Duration. (b) type-directed differential vs encoding/json: random types built with "
             "reflect (all basic kinds, pointers, slices, arrays, maps with string/integer/TextMarshaler keys, interfaces holding "
             "dynamic values and typed nils, structs with tags/omitempty/string/-/embedded value+pointer, >32 fields, Marshaler / "
             "TextMarshaler with value and pointer receivers, Number, RawMessage, time.Time) x random values x {Marshal, Append, "
             "MarshalIndent, Encoder x EscapeHTML x indent/prefix} x {by value, by pointer}, each case regenerated from its own "
             "sub-seed in a supervised child process",
        trusted_base=["encoding/json of the installed toolchain is the oracle (in-process)",
                      "strconv.AppendFloat, base64, time formatting are shared parameters (called by both)"],
        assumptions=["the struct-field resolution / codec construction layer is decided by differential testing, not by theorem"],
    ),
    "C02": dict(
        lean_modules=["Enc.Props.C02", "Enc.Props.C02Any", "Enc.Props.C02Typed", "Enc.Props.C01CodecDec", "Enc.Props.C01Typed", "Enc.Props.C01Fields"],
        variants=V_DEFAULT, areas=["json.decoder", "json.Parse", "json.Unmarshal", "json.Decoder", "json.constructCodec", "json.constructMapCodec",
                                   "json.constructStructType", "json.appendStructFields", "json.hasNullPrefix", "json.appendToLower", "json.foldRune",
                                   "json.skipSpaces", "json.appendRune", "json.appendCoerceInvalidUTF8", "json.internalParseFlags"],
        allowed_native=["Enc.Lemmas.Json", "Lemmas.Json"],
        main_theorem="Enc.Props.C02.unmarshalInt_eq, unmarshalString_eq (scalar decoders as coded = transcription of encoding/json literalStore / unquoteBytes, for every document); Enc.Props.C02Any.decodeAny_eq_spec, decodeAny_ok_iff_valid, number_flags_change_type_only, duplicate_keys_last_wins, decodeAny_render (value-level decoder into `any` = grammar-directed specification, every byte string, every flag subset); Enc.Props.C02Typed.decodeTyped_eq_spec, decodeTyped_total, decodeTyped_ok_implies_valid, key_lookup_agrees, merge_map, decodeTyped_seq_eq_spec (typed targets with prior content = grammar-directed specification); Enc.Props.C01Fields.lookupKey_eq (the field an object key is stored into = the field encoding/json chooses, exact-name layer)",
        rule="(a) scalar layer through the Lean driver: integer literals at every width boundary +-1, 19/20-digit values around the "
             "wrap-around points of value*10+x, leading zeros, floats into integers, random 64-bit magnitudes, into all ten integer "
             "types (model = implementation = transcription of encoding/json's literalStore); string literals with every escape, "
             "surrogate pairs, lone surrogates, invalid UTF-8 (model = implementation = transcription of unquoteBytes); "
             "(b) type-directed differential vs encoding/json: random target types (as C01, plus Unmarshaler / TextUnmarshaler value and "
             "pointer receivers) x documents obtained by marshalling a random value of the type with encoding/json and applying "
             "structure-aware edits (key case, scalar swaps, duplicate and unknown members, null, surplus/missing elements, syntax "
             "damage) or arbitrary documents x {Unmarshal, Parse, Decoder x UseNumber x DisallowUnknownFields} x {fresh, pre-populated "
             "target}; compares nil/non-nil error and, when both succeed, the stored values (encoding/json's rendering of them and "
             "reflect.DeepEqual)",
        trusted_base=["encoding/json of the installed toolchain is the oracle (in-process)",
                      "strconv.ParseFloat, base64, time parsing are shared parameters (called by both)"],
        assumptions=["typed decoder: universe JT (no tags/embedding/Unmarshaler methods: those layers are C01Fields / differential); hypotheses noPP (known finding) and plain prior",
                     "error values are compared as nil / non-nil only (the property says so); json.decanycls compares the error class with the model only"],
    ),
    "C15": dict(
        lean_modules=["Enc.Props.C15"],
        variants=V_DEFAULT, areas=["json.Append", "json.AppendEscape", "json.AppendUnescape", "json.encoder"],
        allowed_native=["Enc.Lemmas.Json", "Lemmas.Json"],
        main_theorem="Enc.Props.C15.append_eq_render, append_oblivious, grow_irrelevant (slice model: Append = prefix ++ render for every prefix, capacity and growth policy); encodeFloat_oblivious; appendEscape_eq, appendUnescape_eq, appendUnquote_eq and their _oblivious corollaries",
        rule="(a) the Lean slice model's value universe (null/bool/int/string/[]byte/failing value/arrays/structs with omitempty, "
             "`,string`, nil embedded pointer) realised as Go values with reflect: implementation = slice model = prefix ++ render over "
             "a (prefix length x spare capacity) grid placed around the encoded size; (b) on the real code only: every type-directed "
             "value of C01 x 8 AppendFlags subsets x {by value, by pointer} x 6 prefix lengths x 10 spare capacities (0, n/2, n-2..n+2, "
             "2n, n+4096) carved from one backing array with guard bytes: result = prefix ++ Append(nil), error iff error, prefix kept "
             "on error, no write below len(b) or beyond cap(b); []byte of every length 0..70 and around 256/1024/4096 in six shapes; "
             "20 failing values (NaN, failing Marshaler/TextMarshaler, invalid RawMessage/Number, unsupported types) at several depths; "
             "AppendEscape / AppendUnescape",
        trusted_base=["Append(nil, v, flags) is the reference for (b): C01 ties it to encoding/json"],
        assumptions=["aliasing inside encodeToString (the string header s := b[i:] is read while b is appended to) is not expressible in "
                     "the immutable-value model; only the guard-byte differential on the real code covers it"],
    ),
    "C14": dict(
        lean_modules=["Enc.Props.C14", "Enc.Props.C14Raw", "Enc.Props.C02Any", "Enc.Props.C01Typed"],
        variants=V_DEFAULT, areas=["json.encoder", "json.decoder", "json.Append", "json.Parse", "json.Encoder", "json.Decoder", "json.AppendFlags", "json.ParseFlags"],
        allowed_native=["Enc.Lemmas.Json", "Lemmas.Json"],
        main_theorem="Enc.Props.C14.dynChoice_is_documented_precedence (decision table of decodeDynamicNumber = documented precedence), dynChoice_value; string_round_trip, escapeHTML_changes_representation_only, int_round_trip_all_widths, render_valid, render_tokens_concat, sortMapKeys_members_perm; Enc.Props.C02Any.number_flags_change_type_only",
        rule="(a) number literals (width boundaries, beyond 64 bits, -0, fractions, exponents, random) x all 16 subsets of "
             "UseNumber/UseBigInt/UseInt64/UseUint64, at top level and nested: dynamic type and value, implementation = model = "
             "documented precedence; (b) on the real code: every type-directed value x {by value, by pointer} x all 8 AppendFlags "
             "subsets: error iff the default flags error, output valid JSON with the same generic value (encoding/json, UseNumber) "
             "as the reference, equal length when only permuted, bytes equal to the standard Encoder with SetEscapeHTML(false), "
             "Encoder setters (SetEscapeHTML/SetSortMapKeys/SetTrustRawMessage/SetAppendNewline) = Append with the same flags; "
             "(c) the default output parsed with all 16 subsets of DontCopyString/DontCopyNumber/DontCopyRawMessage/"
             "DontMatchCaseInsensitiveStructFields and through the Decoder setters (incl. ZeroCopy): same error, same value, "
             "input bytes untouched",
        trusted_base=["encoding/json as generic decoder and as no-escape reference; strconv.ParseFloat and big.Int.UnmarshalJSON are shared parameters"],
        assumptions=["TrustRawMessage is only exercised on values whose raw messages are valid JSON (the property says so)",
                     "for `,string` string fields encoding/json's own outputs for the two EscapeHTML settings decode to different strings "
                     "(the inner quoting is HTML-escaped): the reference for the no-escape subsets is the no-escape output, tied byte for byte "
                     "to the standard Encoder"],
    ),
    "C10": dict(
        lean_modules=["Enc.Props.C10"],
        variants=V_DEFAULT, areas=["json.decoder", "json.Marshal", "json.Encoder", "json.Decoder", "json.Parse", "json.Unmarshal", "json.Tokenizer",
                                   "json.appendCoerceInvalidUTF8", "json.appendRune", "json.encoderBufferPool", "json.encodeKeyFragment"],
        allowed_native=["Enc.Lemmas.Json", "Lemmas.Json"],
        main_theorem="Enc.Props.C10.handed_out_stable (pool state machine: results never change under any later history), alias_only_with_flag, no_flags_fresh",
        rule="(a) provenance: string / Number / RawMessage / []byte literals (escaped, plain, non-ASCII, long) in 13 target shapes "
             "(top level, struct field, map key and value, slice element, interface, pointer) x 8 copy-flag subsets: the real address "
             "of the decoded leaf is classified in / out of the input buffer and must equal the Lean model's prediction; without the "
             "flag it must be out; the leaf must keep its bytes across later library calls on several goroutines, and an out leaf "
             "across the input being overwritten; (b) histories over the type-directed generator: Unmarshal / Parse x copy flags / "
             "Decoder (stream of many values forcing refills and compaction) / Tokenizer leave the input bytes unchanged; no region "
             "of the result aliases the input without its flag; the result is unchanged after pool-churning calls on three "
             "goroutines and (flags off) after the input is overwritten; Marshal / Append / Encoder results unchanged after the same churn",
        trusted_base=["addresses are observed with unsafe.StringData / SliceData; the Go garbage collector does not move heap objects"],
        assumptions=["the pool state machine is a hand-written abstraction of Marshal / Encoder.Encode; its tie to the code is the history test",
                     "sync.Pool may drop buffers at any time: modelled as an empty pool"],
    ),
    "C06": dict(
        lean_modules=["Enc.Props.C06", "Enc.Props.C02Typed"],
        variants=V_DEFAULT, areas=["json.encoder", "json.decoder", "json.Append", "json.Parse", "json.Marshal", "json.Unmarshal", "json.Valid", "json.Tokenizer",
                                   "json.constructCodec", "json.constructCachedCodec", "json.inlined", "json.constructInlineValueEncodeFunc",
                                   "json.constructRecursiveCodec", "json.extendSlice", "json.parse", "json.startDetectingCyclesAfter", "json.maxNestingDepth"],
        allowed_native=["Enc.Lemmas.Json", "Lemmas.Json"],
        main_theorem="Enc.Props.C06 (cycle detection: Marshal of every finite graph returns within T+|g| levels; error iff cyclic); Enc.Props.C05.deep_rejected (decoder nesting bound)",
        rule="every case in a supervised child process (recoverable panic -> panic:, fatal fault / stack overflow / time-out -> fatal:). "
             "(a) graphs of pointers / slices / maps (random cyclic and acyclic, chains of 1..2500 containers of every kind closed at the "
             "start, middle, end or not at all) realised as Go values: Marshal returns an error iff the Lean cycle model does iff the "
             "value is cyclic; 12 typed cycle shapes (struct pointer, interface, slice, map, array, recursive named slice/map/pointer "
             "types) through Marshal/Append/Encoder vs encoding/json; recursive named types round trip; 27 pointer-shaped layouts "
             "(one-element arrays, single-field structs, nested by value, func/chan) by value and by pointer vs encoding/json; "
             "(b) type-directed totality: random types x values x {by value, by pointer} through Marshal, MarshalIndent, 8 Append flag "
             "subsets, Encoder with indent; random target types (fresh or pre-populated) x documents (marshalled then edited, "
             "damaged, truncated; arbitrary bytes) through Unmarshal, Parse with 3 flag sets, Decoder, by-value / nil / nil-pointer "
             "targets, Valid and the Tokenizer with all accessors; (c) documents nested 2,000,000 deep through every decode entry point",
        trusted_base=["the supervisor (process exit status, 20 s time-out, address-space limit) is the oracle for crashes"],
        assumptions=["memory safety of the unsafe field/element addressing is observed, not proved: a layout error that neither crashes nor "
                     "changes the output of any generated case is invisible",
                     "acyclic values nested deeper than the goroutine stack allows (about a million levels) overflow the stack in Marshal as "
                     "they do in encoding/json: recorded as known finding json-marshal-deep-acyclic"],
    ),
    "C09": dict(
        lean_modules=["Enc.Props.C09", "Enc.Props.C01Codec", "Enc.Props.C01CodecDec"],
        variants=[{"name": "default", "tags": "verif"}, {"name": "race", "tags": "verif", "race": True, "aux": True}],
        areas=["json.cache", "json.cacheLoad", "json.cacheStore", "json.constructCachedCodec", "json.Append", "json.Parse", "json.encoderBufferPool",
               "json.mapslicePool", "json.stackPool", "json.Tokenizer", "json.acquireStack", "json.releaseStack", "json.constructStructType", "json.constructRecursiveCodec", "json.Encoder", "json.Marshal", "proto.cachedCodecOf", "proto.loadCachedCodec", "proto.storeCachedCodec",
               "proto.TypeOf", "proto.structCodecOf", "proto.codecOf", "thrift.Encoder", "thrift.Decoder", "thrift.encodeFuncOf", "thrift.decodeFuncOf",
               "json.verifYield", "proto.verifYield", "thrift.verifYield"],
        allowed_native=[],
        main_theorem="Enc.Props.C09.every_call_uses_its_codec, published_cache_good (copy-on-write cache protocol: for every interleaving every call uses the codec it would build alone); Enc.Props.C09.Pool.pool_exclusive, results_stable, all_sites_disciplined, repo_pools_exclusive (sync.Pool skeletons regenerated from the source)",
        rule="(a) deterministic interleavings through the `verif` yield hooks: 1..6 calls over 1..4 never-seen struct types (nested struct, "
             "pointer, slice, map, interface fields) on the json, proto, thrift-encoder and thrift-decoder caches, random orders of "
             "{run to just before publishing, publish}: every result equals the sequential one; the set of types left in the published "
             "cache equals the Lean model's prediction for that schedule (lost updates included); (b) race-detector child processes: "
             "4..32 goroutines x 40 calls each over 2..14 fresh types per package plus a shared recursive type, maps (pooled sort "
             "scratch), tokenizer (pooled stacks), proto.TypeOf, at GOMAXPROCS 1, 2, 4, 16: no data race reported, digest of all "
             "results equal to the digest of the same calls run one by one in another fresh process",
        trusted_base=["the Go race detector (dynamic, schedule-dependent) is the oracle for data races", "goroutine ids are read from runtime.Stack"],
        assumptions=["the protocol model is hand-written; its tie to the code is the schedule replay (cache membership) and the anchors on the cache functions",
                     "sync.Pool usage: skeletons regenerated by tools/extract/pools.go (conservative alias analysis; in-package callees are assumed not to "
                     "retain arguments; nested gets are independent goroutines); proto.TypeOf's mutex is not modelled: only the race-detector stress covers it",
                     "absence of data races is shown for the explored schedules only: the Go memory model is outside the Lean model"],
    ),
}
