"""per-property configuration for /verif/check"""

V_DEFAULT = [{"name": "default", "tags": "verif"}]

PROPS = {
    "C20": dict(
        lean_modules=["Enc.Props.C20"],
        variants=[{"name": "default", "tags": "verif"}, {"name": "purego", "tags": "verif purego"}],
        areas=["ascii.", "asmascii."],
        allowed_native=["Enc.Lemmas.Ascii."],
        main_theorem="Enc.Props.C20.validString_spec / validPrintString_spec / equalFoldString_spec",
        rule="exhaustive in-process sweep (every length 0..L, 16 alignments, every position of one deviating byte, "
             "17..256 deviating values; all byte pairs at block boundaries for EqualFold; every prefix/suffix split) in BOTH the "
             "assembly and the purego build against the byte-wise definition; a ~1/4000 sample + all byte/rune predicate cases go "
             "through the Lean driver (impl = model = spec). distinct = distinct (op,args) line; non-trivial = non-empty input",
        trusted_base=["amd64 assembly kernels of segmentio/asm are NOT modelled: tied by the exhaustive sweep only"],
        assumptions=["the theorem is about the portable (purego) algorithm of segmentio/asm@go.mod version; "
                     "assembly ≡ purego is established by sweep up to length L, not by proof"],
    ),
    "C03": dict(
        lean_modules=["Enc.Props.C03"],
        variants=V_DEFAULT,
        areas=["proto."],
        allowed_native=["Enc.Lemmas.Proto."],
        main_theorem="Enc.Props.C03.size_eq_len_encode / roundtrip",
        rule="random message types (reflect.StructOf: scalars, byte arrays, RawMessage, nested/pointer structs, repeated, maps, "
             "protobuf struct tags with numbers/zigzag/fixed) x random values (integer width boundaries, float bit patterns, "
             "nil vs empty, collection sizes around the cap-10 growth); ops: Marshal (bytes+Size vs Lean model, byte for byte), "
             "round trip Unmarshal(Marshal(v)) vs canon(v) and vs the Lean reference decoder, second Marshal for determinism; "
             "varint/zigzag primitives at every 7-bit boundary. distinct = distinct (op,args) line",
        trusted_base=["inline flag / unsafe pointer representation / recursive types are not modelled (harness only)"],
        assumptions=["Ty/Val universe: finite trees (no recursive message types); user Message implementers represented by RawMessage"],
    ),
}
