#!/bin/bash
# seed_confirm.sh <Cxx> <variant>: confirm a seeded change in its scratch worktree, then copy it to /verif/seeded/<Cxx><variant>/
# (1) patch applies to the clean worktree; (2) go build + go test pass with it; (3) demo prints FAIL with it, PASS without.
set -u
P=$1; V=$2
WT=/tmp/mut/$P; SRC=/tmp/mutout/$P/$V; DST=/verif/seeded/$P$V
export GOFLAGS=-mod=mod GOPROXY=off GOSUMDB=off GOTOOLCHAIN=local
[ -f $SRC/patch.diff ] || { echo "$P$V: no patch"; exit 2; }
git -C $WT checkout -q -- . && git -C $WT clean -fdq
git -C $WT apply --check $SRC/patch.diff || { echo "$P$V: patch does not apply"; exit 2; }
git -C $WT apply $SRC/patch.diff
(cd $WT && go build ./... 2>&1 | tail -3) > /tmp/seed_build.txt; BUILD=$?
TESTS=$(cd $WT && go test -count=1 ./... 2>&1 | grep -v "no test files" | grep -vc "^ok")
cp $WT/go.sum $SRC/demo/go.sum 2>/dev/null
WITH=$(cd $SRC/demo && timeout 600 go run . 2>&1 | grep -a -m3 -E "FAIL|PASS")
git -C $WT checkout -q -- . && git -C $WT clean -fdq
WITHOUT=$(cd $SRC/demo && timeout 600 go run . 2>&1 | tail -5)
ok=1
[ "$TESTS" = "0" ] || ok=0
echo "$WITH" | grep -q "FAIL" || ok=0
echo "$WITHOUT" | grep -q "PASS" || ok=0
echo "$WITHOUT" | grep -q "FAIL" && ok=0
echo "$P$V: tests-not-ok=$TESTS with-patch: $(echo "$WITH" | grep -m1 FAIL | cut -c1-150) | without: $(echo "$WITHOUT" | grep -m1 -E 'PASS|FAIL' | cut -c1-80) => confirmed=$ok"
if [ $ok = 1 ]; then
  rm -rf $DST; mkdir -p $DST; cp $SRC/patch.diff $SRC/meta.json $DST/; cp -r $SRC/demo $DST/demo
  sed -i "s#/tmp/mut/$P#/repo#g" $DST/demo/go.mod
fi
