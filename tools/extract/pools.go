// pools.go: regenerates Enc/Gen/Pools.lean — the SKELETON, over sync.Pool events, of every function or closure of
// json / proto / thrift / internal/* that obtains a pooled object (directly by P.Get() or through a wrapper that
// returns it), or touches a struct field that holds one across calls (Tokenizer.stack).
//
// Vocabulary (Enc/Model/Conc/Pool.lean): get / put / use / callOut / store / clear events, ret (escapes), seq, alt,
// loop, call (an inlined in-package callee).  Rules, all syntactic + go/types, deliberately simple and conservative:
//
//	pool        a variable (package level or local) of type sync.Pool / *sync.Pool
//	root        `v := P.Get()…` (through type assertions / conversions) or `v := getter()`; v gets a var slot
//	getter      a declared function with a Get whose return values mention the pooled variable (acquireStack);
//	            a call `x = getter()` is `get P x; use x`
//	putter      a declared function that Puts one of its parameters (releaseStack); `putter(e)` is `put P ref(e)`
//	tracked     a struct field assigned from a Get or a getter (t.stack = acquireStack()): a field slot; every
//	field       selector of that field, on any receiver, denotes it (one long-lived value per goroutine)
//	alias       a local ever assigned (flow-insensitively) from an expression that CARRIES a root: selectors,
//	            slices, &-paths, type assertions, conversions (not to scalar types), append(x…) with x carrying,
//	            composite literals / other calls with a carrying operand and a non-scalar, non-error result;
//	            NOT: len/cap/copy/make/new, scalars and strings, value loads x[i] / *p / range values of struct or
//	            scalar type (value copies), append(fresh, bytes…)
//	use         any other statement or condition mentioning a root / alias / tracked field (except `r == nil`)
//	callOut     a call of anything that is not a declared function or concrete method of this package (other
//	            packages, interface methods, func values) with a carrying argument or receiver
//	store       a carrying value assigned to a non-local place, captured by a func literal, or passed to `go`
//	clear       `r = nil` for a root or tracked field
//	defer P.Put(v)   the put is emitted before every return and at the end of the function
//	break/continue   the remainder of every enclosing block becomes optional (a superset of the real paths)
//	in-package callees that (transitively) touch pools or tracked fields are inlined as `call`
package main

import (
	"bytes"
	"fmt"
	"go/ast"
	"go/importer"
	"go/parser"
	"go/printer"
	"go/token"
	"go/types"
	"io"
	"os"
	"path/filepath"
	"sort"
	"strings"
)

type pref struct {
	field bool
	id    int
}

func (r pref) lean() string {
	if r.field {
		return fmt.Sprintf("(.field %d)", r.id)
	}
	return fmt.Sprintf("(.var %d)", r.id)
}

// skeleton tree
type pnode struct {
	kind    string // skip ev ret seq alt loop call
	text    string // ev: Lean event; ret: escapes list
	comment string
	kids    []*pnode
}

func pskip() *pnode { return &pnode{kind: "skip"} }
func pseq(ks ...*pnode) *pnode {
	var out []*pnode
	for _, k := range ks {
		if k == nil || k.kind == "skip" {
			continue
		}
		if k.kind == "seq" {
			out = append(out, k.kids...)
		} else {
			out = append(out, k)
		}
	}
	if len(out) == 0 {
		return pskip()
	}
	if len(out) == 1 {
		return out[0]
	}
	return &pnode{kind: "seq", kids: out}
}
func palt(ks ...*pnode) *pnode {
	all := true
	for _, k := range ks {
		if k.kind != "skip" {
			all = false
		}
	}
	if all {
		return pskip()
	}
	// drop duplicate skips
	var out []*pnode
	seenSkip := false
	for _, k := range ks {
		if k.kind == "skip" {
			if seenSkip {
				continue
			}
			seenSkip = true
		}
		out = append(out, k)
	}
	if len(out) == 1 {
		return out[0]
	}
	return &pnode{kind: "alt", kids: out}
}
func ploop(b *pnode) *pnode {
	if b.kind == "skip" {
		return b
	}
	return &pnode{kind: "loop", kids: []*pnode{b}}
}

func (n *pnode) print(w *bytes.Buffer, ind string, last bool) {
	comma := ","
	if last {
		comma = ""
	}
	cm := ""
	if n.comment != "" {
		cm = "   -- " + n.comment
	}
	switch n.kind {
	case "skip":
		fmt.Fprintf(w, "%s.skip%s%s\n", ind, comma, cm)
	case "ev":
		fmt.Fprintf(w, "%s.ev (%s)%s%s\n", ind, n.text, comma, cm)
	case "ret":
		fmt.Fprintf(w, "%s.ret [%s]%s%s\n", ind, n.text, comma, cm)
	case "seq", "alt":
		fmt.Fprintf(w, "%s.%ss [%s\n", ind, n.kind, cm)
		for i, k := range n.kids {
			k.print(w, ind+"  ", i == len(n.kids)-1)
		}
		fmt.Fprintf(w, "%s]%s\n", ind, comma)
	case "loop", "call":
		fmt.Fprintf(w, "%s.%s (%s\n", ind, n.kind, cm)
		n.kids[0].print(w, ind+"  ", true)
		fmt.Fprintf(w, "%s)%s\n", ind, comma)
	}
}

type poolPkg struct {
	name  string
	dir   string
	fset  *token.FileSet
	files []*ast.File
	info  *types.Info
	tpkg  *types.Package
	src   map[string][]string // file → lines
	decls map[*types.Func]*ast.FuncDecl

	pools    map[types.Object]int // pool variable → global pool id
	getters  map[*types.Func]int  // getter wrapper → pool id
	putters  map[*types.Func][2]int
	tracked  map[types.Object]int // field → global field id
	touching map[*types.Func]bool
}

type poolGen struct {
	poolNames  []string
	fieldNames []string
	maxVars    int
	sites      []siteOut
	wrappers   []string
	errs       []string
}

type siteOut struct {
	name, doc string
	body      *pnode
}

type stubImporter struct {
	src types.Importer
}

func (s stubImporter) Import(path string) (p *types.Package, err error) {
	defer func() {
		if r := recover(); r != nil || err != nil || p == nil {
			p, err = types.NewPackage(path, filepath.Base(path)), nil
		}
	}()
	return s.src.Import(path)
}

func isPoolType(t types.Type) bool {
	if t == nil {
		return false
	}
	s := t.String()
	return s == "sync.Pool" || s == "*sync.Pool"
}

func loadPoolPkg(name, dir string) (*poolPkg, error) {
	p := &poolPkg{name: name, dir: dir, fset: token.NewFileSet(), src: map[string][]string{}, decls: map[*types.Func]*ast.FuncDecl{},
		pools: map[types.Object]int{}, getters: map[*types.Func]int{}, putters: map[*types.Func][2]int{}, tracked: map[types.Object]int{},
		touching: map[*types.Func]bool{}}
	ents, err := os.ReadDir(dir)
	if err != nil {
		return nil, err
	}
	for _, e := range ents {
		n := e.Name()
		if e.IsDir() || !strings.HasSuffix(n, ".go") || strings.HasSuffix(n, "_test.go") {
			continue
		}
		path := filepath.Join(dir, n)
		src, err := os.ReadFile(path)
		if err != nil {
			return nil, err
		}
		f, err := parser.ParseFile(p.fset, path, src, parser.ParseComments)
		if err != nil {
			return nil, err
		}
		if f.Name.Name == "main" || !buildOK(f, src, false) {
			continue
		}
		p.files = append(p.files, f)
		p.src[path] = strings.Split(string(src), "\n")
	}
	p.info = &types.Info{Types: map[ast.Expr]types.TypeAndValue{}, Defs: map[*ast.Ident]types.Object{}, Uses: map[*ast.Ident]types.Object{},
		Selections: map[*ast.SelectorExpr]*types.Selection{}}
	conf := types.Config{Importer: stubImporter{importer.ForCompiler(p.fset, "source", nil)}, Error: func(error) {}, FakeImportC: true}
	p.tpkg, _ = conf.Check(name, p.fset, p.files, p.info)
	for _, f := range p.files {
		for _, d := range f.Decls {
			if fd, ok := d.(*ast.FuncDecl); ok && fd.Body != nil {
				if fn, ok := p.info.Defs[fd.Name].(*types.Func); ok {
					p.decls[fn] = fd
				}
			}
		}
	}
	return p, nil
}

func (p *poolPkg) line(pos token.Pos) string {
	ps := p.fset.Position(pos)
	ls := p.src[ps.Filename]
	t := ""
	if ps.Line-1 < len(ls) {
		t = strings.TrimSpace(ls[ps.Line-1])
	}
	if len(t) > 90 {
		t = t[:90] + "…"
	}
	t = strings.NewReplacer("/-", "/ -", "-/", "- /").Replace(t) // keep Lean comment delimiters out of the comment text
	return fmt.Sprintf("%s:%d  %s", filepath.Base(ps.Filename), ps.Line, t)
}

// inspectNoLit walks n without descending into function literals
func inspectNoLit(n ast.Node, f func(ast.Node) bool) {
	ast.Inspect(n, func(m ast.Node) bool {
		if _, ok := m.(*ast.FuncLit); ok && m != n {
			return false
		}
		return f(m)
	})
}

// poolCall recognises P.Get() / P.Put(x)
func (p *poolPkg) poolCall(c *ast.CallExpr) (pool int, method string, ok bool) {
	sel, isSel := c.Fun.(*ast.SelectorExpr)
	if !isSel || (sel.Sel.Name != "Get" && sel.Sel.Name != "Put") {
		return 0, "", false
	}
	id, isID := sel.X.(*ast.Ident)
	if !isID {
		return 0, "", false
	}
	obj := p.info.Uses[id]
	if pid, ok := p.pools[obj]; ok {
		return pid, sel.Sel.Name, true
	}
	return 0, "", false
}

func (p *poolPkg) staticCallee(c *ast.CallExpr) *types.Func {
	switch f := c.Fun.(type) {
	case *ast.Ident:
		if fn, ok := p.info.Uses[f].(*types.Func); ok && fn.Pkg() == p.tpkg {
			return fn
		}
	case *ast.SelectorExpr:
		if sel, ok := p.info.Selections[f]; ok {
			if sel.Kind() != types.MethodVal {
				return nil
			}
			if _, isIface := sel.Recv().Underlying().(*types.Interface); isIface {
				return nil
			}
		}
		if fn, ok := p.info.Uses[f.Sel].(*types.Func); ok && fn.Pkg() == p.tpkg {
			if _, has := p.decls[fn]; has {
				return fn
			}
		}
	}
	return nil
}

func isTypeExprSyntax(e ast.Expr) bool {
	switch x := e.(type) {
	case *ast.StarExpr, *ast.ArrayType, *ast.MapType, *ast.InterfaceType, *ast.FuncType, *ast.ChanType:
		return true
	case *ast.ParenExpr:
		return isTypeExprSyntax(x.X)
	}
	return false
}

func (p *poolPkg) isConversion(c *ast.CallExpr) bool {
	if tv, ok := p.info.Types[c.Fun]; ok && tv.IsType() {
		return true
	}
	return isTypeExprSyntax(c.Fun)
}

// acquiring call: a Get or a getter wrapper, possibly wrapped in assertions / conversions
func (p *poolPkg) acquire(e ast.Expr) (pool int, viaGetter bool, ok bool) {
	for {
		switch x := e.(type) {
		case *ast.ParenExpr:
			e = x.X
			continue
		case *ast.TypeAssertExpr:
			e = x.X
			continue
		case *ast.CallExpr:
			if pid, m, ok := p.poolCall(x); ok && m == "Get" {
				return pid, false, true
			}
			if fn := p.staticCallee(x); fn != nil {
				if pid, ok := p.getters[fn]; ok {
					return pid, true, true
				}
			}
			if (p.isConversion(x) || p.passThrough(x)) && len(x.Args) == 1 {
				e = x.Args[0]
				continue
			}
		}
		return 0, false, false
	}
}

// passThrough: a call of a one-parameter in-package function whose body is a single `return <expr mentioning the
// parameter>` (proto.pointer: extracts the data word of an interface) — transparent for acquisitions
func (p *poolPkg) passThrough(c *ast.CallExpr) bool {
	fn := p.staticCallee(c)
	if fn == nil || len(c.Args) != 1 {
		return false
	}
	fd := p.decls[fn]
	if fd == nil || len(fd.Body.List) != 1 || fd.Type.Params.NumFields() != 1 || len(fd.Type.Params.List[0].Names) != 1 {
		return false
	}
	rs, ok := fd.Body.List[0].(*ast.ReturnStmt)
	if !ok || len(rs.Results) != 1 {
		return false
	}
	param := p.info.Defs[fd.Type.Params.List[0].Names[0]]
	found := false
	ast.Inspect(rs.Results[0], func(n ast.Node) bool {
		if id, ok := n.(*ast.Ident); ok && p.info.Uses[id] == param {
			found = true
		}
		return true
	})
	return found
}

// ---- per-function translation -------------------------------------------------------------------------------

type fnCtx struct {
	p       *poolPkg
	g       *poolGen
	vars    map[types.Object]pref // roots and aliases → root ref
	roots   map[types.Object]bool
	nextVar *int
	varDoc  *[]string
	defers  []*pnode
	stack   []*types.Func
}

func (c *fnCtx) obj(id *ast.Ident) types.Object {
	if o := c.p.info.Uses[id]; o != nil {
		return o
	}
	return c.p.info.Defs[id]
}

func (c *fnCtx) trackedSel(e ast.Expr) (pref, bool) {
	if s, ok := e.(*ast.SelectorExpr); ok {
		if o := c.p.info.Uses[s.Sel]; o != nil {
			if id, ok := c.p.tracked[o]; ok {
				return pref{true, id}, true
			}
		}
	}
	return pref{}, false
}

func isScalar(t types.Type) bool {
	if t == nil {
		return false
	}
	if t.String() == "error" {
		return true
	}
	switch u := t.Underlying().(type) {
	case *types.Basic:
		return u.Kind() != types.UnsafePointer && u.Kind() != types.Invalid && u.Kind() != types.UntypedNil
	}
	return false
}

func shallowPointerLike(t types.Type) bool {
	if t == nil {
		return true
	}
	switch u := t.Underlying().(type) {
	case *types.Pointer, *types.Slice, *types.Map, *types.Chan, *types.Signature:
		return true
	case *types.Basic:
		return u.Kind() == types.UnsafePointer || u.Kind() == types.Invalid
	}
	return false
}

func (c *fnCtx) typeOf(e ast.Expr) types.Type {
	if tv, ok := c.p.info.Types[e]; ok {
		return tv.Type
	}
	return nil
}

// mentions: all refs named anywhere inside n (including inside func literals)
func (c *fnCtx) mentions(n ast.Node) []pref {
	var out []pref
	add := func(r pref) {
		for _, x := range out {
			if x == r {
				return
			}
		}
		out = append(out, r)
	}
	ast.Inspect(n, func(m ast.Node) bool {
		switch x := m.(type) {
		case *ast.Ident:
			if r, ok := c.vars[c.obj(x)]; ok {
				add(r)
			}
		case *ast.SelectorExpr:
			if r, ok := c.trackedSel(x); ok {
				add(r)
			}
		}
		return true
	})
	return out
}

// carries: does the VALUE of e (may) refer to pooled memory, and of which root
func (c *fnCtx) carries(e ast.Expr) (pref, bool) {
	no := pref{}
	switch x := e.(type) {
	case *ast.Ident:
		r, ok := c.vars[c.obj(x)]
		return r, ok
	case *ast.ParenExpr:
		return c.carries(x.X)
	case *ast.SelectorExpr:
		if r, ok := c.trackedSel(x); ok {
			return r, true
		}
		if r, ok := c.carries(x.X); ok && !isScalar(c.typeOf(e)) {
			return r, true
		}
		if r, ok := c.path(x.X); ok && !isScalar(c.typeOf(e)) {
			return r, true
		}
	case *ast.IndexExpr:
		if r, ok := c.carries(x.X); ok && shallowPointerLike(c.typeOf(e)) {
			return r, true
		}
	case *ast.StarExpr:
		if r, ok := c.carries(x.X); ok && shallowPointerLike(c.typeOf(e)) {
			return r, true
		}
	case *ast.SliceExpr:
		return c.carries(x.X)
	case *ast.UnaryExpr:
		if x.Op == token.AND {
			return c.path(x.X)
		}
	case *ast.TypeAssertExpr:
		return c.carries(x.X)
	case *ast.CompositeLit:
		for _, el := range x.Elts {
			if kv, ok := el.(*ast.KeyValueExpr); ok {
				el = kv.Value
			}
			if r, ok := c.carries(el); ok {
				return r, true
			}
		}
	case *ast.FuncLit:
		if ms := c.mentions(x); len(ms) > 0 {
			return ms[0], true
		}
	case *ast.CallExpr:
		if _, _, ok := c.p.acquire(x); ok {
			return no, false // a fresh acquisition is a root definition, handled by the statement
		}
		if c.p.isConversion(x) {
			if len(x.Args) != 1 {
				return no, false
			}
			t := c.typeOf(e)
			if t != nil && t.String() == "unsafe.Pointer" {
				if ms := c.mentions(x.Args[0]); len(ms) > 0 {
					return ms[0], true
				}
				return no, false
			}
			if isScalar(t) {
				return no, false
			}
			return c.carries(x.Args[0])
		}
		if id, ok := x.Fun.(*ast.Ident); ok {
			if _, isBuiltin := c.obj(id).(*types.Builtin); isBuiltin || c.obj(id) == nil {
				switch id.Name {
				case "append":
					if len(x.Args) > 0 {
						if r, ok := c.carries(x.Args[0]); ok {
							return r, true
						}
						for _, a := range x.Args[1:] {
							if r, ok := c.carries(a); ok {
								// elements are copied: an alias only if the element type is not scalar
								if sl, isSl := c.typeOf(a).Underlying().(*types.Slice); x.Ellipsis.IsValid() && isSl && isScalar(sl.Elem()) {
									continue
								}
								return r, true
							}
						}
					}
					return no, false
				case "len", "cap", "copy", "make", "new", "delete", "min", "max", "panic", "print", "println", "clear", "recover", "complex", "real", "imag":
					return no, false
				}
			}
		}
		if isScalar(c.typeOf(e)) {
			return no, false
		}
		if sel, ok := x.Fun.(*ast.SelectorExpr); ok {
			if r, ok := c.carries(sel.X); ok {
				return r, true
			}
			if r, ok := c.path(sel.X); ok {
				return r, true
			}
		}
		for _, a := range x.Args {
			if r, ok := c.carries(a); ok {
				return r, true
			}
		}
	}
	return no, false
}

// path: e is an lvalue path rooted at a pooled ref (buf.data, s.elements[i], *s): its ADDRESS is pooled memory
func (c *fnCtx) path(e ast.Expr) (pref, bool) {
	switch x := e.(type) {
	case *ast.Ident:
		if c.roots[c.obj(x)] {
			return pref{}, false // &buf: the address of the local variable itself
		}
		r, ok := c.vars[c.obj(x)]
		return r, ok
	case *ast.ParenExpr:
		return c.path(x.X)
	case *ast.SelectorExpr:
		if r, ok := c.trackedSel(x); ok {
			return r, true
		}
		if r, ok := c.carries(x.X); ok {
			return r, true
		}
		return c.path(x.X)
	case *ast.IndexExpr:
		if r, ok := c.carries(x.X); ok {
			return r, true
		}
		return c.path(x.X)
	case *ast.StarExpr:
		return c.carries(x.X)
	}
	return pref{}, false
}

func (c *fnCtx) newVar(name string) pref {
	r := pref{false, *c.nextVar}
	*c.nextVar++
	*c.varDoc = append(*c.varDoc, fmt.Sprintf("v%d=%s", r.id, name))
	return r
}

// prepass: roots and (flow-insensitive) aliases of body
func (c *fnCtx) prepass(body ast.Node) {
	// roots
	inspectNoLit(body, func(n ast.Node) bool {
		switch s := n.(type) {
		case *ast.AssignStmt:
			if len(s.Lhs) >= 1 && len(s.Rhs) == 1 {
				if _, _, ok := c.p.acquire(s.Rhs[0]); ok {
					if id, ok := s.Lhs[0].(*ast.Ident); ok && id.Name != "_" {
						o := c.obj(id)
						if _, have := c.vars[o]; !have {
							c.vars[o] = c.newVar(id.Name)
							c.roots[o] = true
						}
					}
				}
			}
		case *ast.ValueSpec:
			if len(s.Values) == 1 && len(s.Names) >= 1 {
				if _, _, ok := c.p.acquire(s.Values[0]); ok {
					o := c.p.info.Defs[s.Names[0]]
					if _, have := c.vars[o]; !have {
						c.vars[o] = c.newVar(s.Names[0].Name)
						c.roots[o] = true
					}
				}
			}
		}
		return true
	})
	// aliases to a fixpoint
	for changed := true; changed; {
		changed = false
		bindAlias := func(lhs ast.Expr, r pref, t types.Type) {
			id, ok := lhs.(*ast.Ident)
			if !ok || id.Name == "_" {
				return
			}
			o := c.obj(id)
			if o == nil || isScalar(o.Type()) {
				return
			}
			if _, isVar := o.(*types.Var); !isVar || o.Parent() == c.p.tpkg.Scope() {
				return
			}
			if old, have := c.vars[o]; have {
				if old != r && !c.roots[o] {
					c.g.errs = append(c.g.errs, fmt.Sprintf("%s: %s aliases two pooled objects", c.p.line(lhs.Pos()), id.Name))
				}
				return
			}
			c.vars[o] = r
			changed = true
		}
		inspectNoLit(body, func(n ast.Node) bool {
			switch s := n.(type) {
			case *ast.AssignStmt:
				if len(s.Lhs) == len(s.Rhs) {
					for i := range s.Lhs {
						if r, ok := c.carries(s.Rhs[i]); ok {
							bindAlias(s.Lhs[i], r, nil)
						}
					}
				} else if len(s.Rhs) == 1 {
					if r, ok := c.carries(s.Rhs[0]); ok {
						for _, l := range s.Lhs {
							bindAlias(l, r, nil)
						}
					}
				}
			case *ast.ValueSpec:
				for i, nm := range s.Names {
					var rhs ast.Expr
					if len(s.Values) == len(s.Names) {
						rhs = s.Values[i]
					} else if len(s.Values) == 1 {
						rhs = s.Values[0]
					}
					if rhs != nil {
						if r, ok := c.carries(rhs); ok {
							bindAlias(nm, r, nil)
						}
					}
				}
			case *ast.RangeStmt:
				if r, ok := c.carries(s.X); ok && s.Value != nil {
					if id, isID := s.Value.(*ast.Ident); isID {
						if o := c.obj(id); o != nil && shallowPointerLike(o.Type()) {
							bindAlias(s.Value, r, nil)
						}
					}
				}
			}
			return true
		})
	}
}

func isNil(e ast.Expr) bool {
	id, ok := e.(*ast.Ident)
	return ok && id.Name == "nil"
}

// bareRef: e is exactly a root variable or a tracked field selector (reading it reads the pointer, not the object)
func (c *fnCtx) bareRef(e ast.Expr) (pref, bool) {
	switch x := e.(type) {
	case *ast.ParenExpr:
		return c.bareRef(x.X)
	case *ast.Ident:
		if c.roots[c.obj(x)] {
			return c.vars[c.obj(x)], true
		}
	case *ast.SelectorExpr:
		return c.trackedSel(x)
	}
	return pref{}, false
}

func ev(kind string, pool int, r pref, cm string) *pnode {
	switch kind {
	case "get", "put":
		return &pnode{kind: "ev", text: fmt.Sprintf(".%s %d %s", kind, pool, r.lean()), comment: cm}
	}
	return &pnode{kind: "ev", text: fmt.Sprintf(".%s %s", kind, r.lean()), comment: cm}
}

// events of an expression / simple statement n.  lhsTargets: acquisition targets and `= nil` handled by the caller.
func (c *fnCtx) exprEvents(n ast.Node, skip map[ast.Node]bool) *pnode {
	if n == nil {
		return pskip()
	}
	cm := c.p.line(n.Pos())
	var seq []*pnode
	strength := map[pref]int{} // 1 use, 2 callOut, 3 store
	var order []pref
	note := func(r pref, k int) {
		if _, ok := strength[r]; !ok {
			order = append(order, r)
		}
		if k > strength[r] {
			strength[r] = k
		}
	}
	var walk func(m ast.Node) bool
	walk = func(m ast.Node) bool {
		if m == nil || skip[m] {
			return false
		}
		switch x := m.(type) {
		case *ast.FuncLit:
			for _, r := range c.mentions(x) {
				note(r, 3)
			}
			return false
		case *ast.BinaryExpr:
			if x.Op == token.EQL || x.Op == token.NEQ {
				if _, ok := c.bareRef(x.X); ok && isNil(x.Y) {
					return false
				}
				if _, ok := c.bareRef(x.Y); ok && isNil(x.X) {
					return false
				}
			}
		case *ast.CallExpr:
			if _, m2, ok := c.p.poolCall(x); ok {
				c.g.errs = append(c.g.errs, fmt.Sprintf("%s: pool.%s in an unsupported position", cm, m2))
				return false
			}
			if fn := c.p.staticCallee(x); fn != nil {
				if _, isG := c.p.getters[fn]; isG {
					c.g.errs = append(c.g.errs, fmt.Sprintf("%s: getter call in an unsupported position", cm))
					return false
				}
				if pp, isP := c.p.putters[fn]; isP {
					// arguments first
					if pp[1] < len(x.Args) {
						if r, ok := c.refOf(x.Args[pp[1]]); ok {
							seq = append(seq, ev("put", pp[0], r, cm))
							return false
						}
					}
					c.g.errs = append(c.g.errs, fmt.Sprintf("%s: putter argument is not a tracked reference", cm))
					return false
				}
				if c.p.touching[fn] {
					// evaluate the arguments, then run the callee inline
					for _, a := range x.Args {
						ast.Inspect(a, walk)
					}
					seq = append(seq, c.inline(fn, x, cm))
					return false
				}
				// any other in-package callee: a use of whatever it is given
				return true
			}
			if c.p.isConversion(x) {
				return true
			}
			if id, ok := x.Fun.(*ast.Ident); ok {
				if _, isB := c.obj(id).(*types.Builtin); isB {
					return true
				}
			}
			// foreign / dynamic call
			if sel, ok := x.Fun.(*ast.SelectorExpr); ok {
				if r, ok := c.carries(sel.X); ok {
					note(r, 2)
				} else if r, ok := c.path(sel.X); ok {
					note(r, 2)
				}
			}
			for _, a := range x.Args {
				if r, ok := c.carries(a); ok {
					note(r, 2)
				}
			}
			return true
		case *ast.Ident:
			if r, ok := c.vars[c.obj(x)]; ok {
				note(r, 1)
			}
		case *ast.SelectorExpr:
			if r, ok := c.trackedSel(x); ok {
				note(r, 1)
				return false
			}
		}
		return true
	}
	ast.Inspect(n, walk)
	for _, r := range order {
		k := []string{"", "use", "callOut", "store"}[strength[r]]
		seq = append(seq, ev(k, 0, r, cm))
	}
	return pseq(seq...)
}

func (c *fnCtx) refOf(e ast.Expr) (pref, bool) {
	if r, ok := c.bareRef(e); ok {
		return r, true
	}
	if r, ok := c.carries(e); ok {
		return r, true
	}
	return c.path(e)
}

func (c *fnCtx) inline(fn *types.Func, call *ast.CallExpr, cm string) *pnode {
	for _, f := range c.stack {
		if f == fn {
			c.g.errs = append(c.g.errs, fmt.Sprintf("%s: recursive inlining of %s", cm, fn.Name()))
			return pskip()
		}
	}
	fd := c.p.decls[fn]
	sub := &fnCtx{p: c.p, g: c.g, vars: map[types.Object]pref{}, roots: map[types.Object]bool{}, nextVar: c.nextVar, varDoc: c.varDoc,
		stack: append(append([]*types.Func{}, c.stack...), fn)}
	// parameters bound to the caller's refs
	i := 0
	for _, fl := range fd.Type.Params.List {
		for _, nm := range fl.Names {
			if i < len(call.Args) {
				if r, ok := c.refOf(call.Args[i]); ok {
					sub.vars[c.p.info.Defs[nm]] = r
				}
			}
			i++
		}
	}
	if fd.Recv != nil && len(fd.Recv.List) == 1 && len(fd.Recv.List[0].Names) == 1 {
		if sel, ok := call.Fun.(*ast.SelectorExpr); ok {
			if r, ok := c.refOf(sel.X); ok {
				sub.vars[c.p.info.Defs[fd.Recv.List[0].Names[0]]] = r
			}
		}
	}
	body := sub.function(fd.Body)
	if body.kind == "skip" {
		return body
	}
	return &pnode{kind: "call", kids: []*pnode{body}, comment: cm + "   [inlined " + fn.Name() + "]"}
}

func (c *fnCtx) function(body *ast.BlockStmt) *pnode {
	c.prepass(body)
	b := c.block(body.List)
	return pseq(b, pseq(c.deferred()...))
}

func (c *fnCtx) deferred() []*pnode {
	var out []*pnode
	for i := len(c.defers) - 1; i >= 0; i-- {
		d := *c.defers[i]
		out = append(out, &d)
	}
	return out
}

// containsBranch: s contains a break/continue that leaves s (unlabeled ones bound by a loop / switch inside s, and
// labeled ones whose label is inside s, do not)
func containsBranch(s ast.Stmt) bool {
	var walk func(n ast.Node, inLoop, inSwitch bool, labels map[string]bool) bool
	walk = func(n ast.Node, inLoop, inSwitch bool, labels map[string]bool) bool {
		found := false
		ast.Inspect(n, func(m ast.Node) bool {
			if found || m == nil {
				return false
			}
			if m == n {
				return true
			}
			switch x := m.(type) {
			case *ast.FuncLit:
				return false
			case *ast.LabeledStmt:
				l2 := map[string]bool{x.Label.Name: true}
				for k := range labels {
					l2[k] = true
				}
				if walkStmt(x.Stmt, inLoop, inSwitch, l2, walk) {
					found = true
				}
				return false
			case *ast.ForStmt, *ast.RangeStmt:
				if walk(m, true, true, labels) {
					found = true
				}
				return false
			case *ast.SwitchStmt, *ast.TypeSwitchStmt, *ast.SelectStmt:
				if walk(m, inLoop, true, labels) {
					found = true
				}
				return false
			case *ast.BranchStmt:
				if x.Tok != token.BREAK && x.Tok != token.CONTINUE {
					return false
				}
				if x.Label != nil {
					if !labels[x.Label.Name] {
						found = true
					}
				} else if x.Tok == token.BREAK && !inSwitch {
					found = true
				} else if x.Tok == token.CONTINUE && !inLoop {
					found = true
				}
			}
			return true
		})
		return found
	}
	return walkStmt(s, false, false, map[string]bool{}, walk)
}

func walkStmt(s ast.Stmt, inLoop, inSwitch bool, labels map[string]bool, walk func(ast.Node, bool, bool, map[string]bool) bool) bool {
	switch x := s.(type) {
	case *ast.LabeledStmt:
		l2 := map[string]bool{x.Label.Name: true}
		for k := range labels {
			l2[k] = true
		}
		return walkStmt(x.Stmt, inLoop, inSwitch, l2, walk)
	case *ast.ForStmt, *ast.RangeStmt:
		return walk(s, true, true, labels)
	case *ast.SwitchStmt, *ast.TypeSwitchStmt, *ast.SelectStmt:
		return walk(s, inLoop, true, labels)
	case *ast.BranchStmt:
		if x.Tok != token.BREAK && x.Tok != token.CONTINUE {
			return false
		}
		if x.Label != nil {
			return !labels[x.Label.Name]
		}
		return (x.Tok == token.BREAK && !inSwitch) || (x.Tok == token.CONTINUE && !inLoop)
	}
	return walk(s, inLoop, inSwitch, labels)
}

func (c *fnCtx) block(list []ast.Stmt) *pnode {
	if len(list) == 0 {
		return pskip()
	}
	head := c.stmt(list[0])
	if len(list) == 1 {
		return head
	}
	rest := c.block(list[1:])
	if containsBranch(list[0]) && rest.kind != "skip" {
		rest = palt(pskip(), rest)
		rest.comment = "the statement above may break/continue: the rest of the block is optional"
	}
	return pseq(head, rest)
}

func (c *fnCtx) simple(s ast.Stmt) *pnode {
	if s == nil {
		return pskip()
	}
	cm := c.p.line(s.Pos())
	skip := map[ast.Node]bool{}
	var pre, post []*pnode
	handleAssign := func(lhs []ast.Expr, rhs []ast.Expr) {
		// acquisition
		if len(rhs) == 1 && len(lhs) >= 1 {
			if pool, viaGetter, ok := c.p.acquire(rhs[0]); ok {
				r, okr := c.bareRef(lhs[0])
				if !okr {
					c.g.errs = append(c.g.errs, fmt.Sprintf("%s: pooled object assigned to an untracked place", cm))
					return
				}
				skip[rhs[0]] = true
				skip[lhs[0]] = true
				post = append(post, ev("get", pool, r, cm))
				if viaGetter {
					post = append(post, ev("use", 0, r, cm+"   [the getter initialises it]"))
				}
				return
			}
		}
		if len(lhs) == len(rhs) {
			for i := range lhs {
				if r, ok := c.bareRef(lhs[i]); ok && isNil(rhs[i]) {
					skip[lhs[i]] = true
					post = append(post, ev("clear", 0, r, cm))
					continue
				}
				if r, ok := c.carries(rhs[i]); ok {
					// a carrying value stored somewhere that is neither a local nor inside the pooled object itself
					if c.longLived(lhs[i]) {
						pre = append(pre, ev("store", 0, r, cm))
					}
				}
			}
		}
	}
	switch x := s.(type) {
	case *ast.AssignStmt:
		handleAssign(x.Lhs, x.Rhs)
	case *ast.DeclStmt:
		if gd, ok := x.Decl.(*ast.GenDecl); ok {
			for _, sp := range gd.Specs {
				if vs, ok := sp.(*ast.ValueSpec); ok && len(vs.Values) > 0 {
					var lhs []ast.Expr
					for _, nm := range vs.Names {
						lhs = append(lhs, nm)
					}
					handleAssign(lhs, vs.Values)
				}
			}
		}
	case *ast.ExprStmt:
		if call, ok := x.X.(*ast.CallExpr); ok {
			if pool, m, ok := c.p.poolCall(call); ok && m == "Put" && len(call.Args) == 1 {
				if r, ok := c.refOf(call.Args[0]); ok {
					return ev("put", pool, r, cm)
				}
				c.g.errs = append(c.g.errs, fmt.Sprintf("%s: Put of something that is not a tracked reference", cm))
				return pskip()
			}
			if id, ok := call.Fun.(*ast.Ident); ok && id.Name == "panic" {
				return pseq(c.exprEvents(call, skip), pseq(c.deferred()...), &pnode{kind: "ret", comment: cm})
			}
		}
	case *ast.GoStmt:
		var out []*pnode
		for _, r := range c.mentions(x.Call) {
			out = append(out, ev("store", 0, r, cm))
		}
		return pseq(out...)
	case *ast.DeferStmt:
		if pool, m, ok := c.p.poolCall(x.Call); ok && m == "Put" && len(x.Call.Args) == 1 {
			if r, ok := c.refOf(x.Call.Args[0]); ok {
				c.defers = append(c.defers, ev("put", pool, r, cm+"   [deferred]"))
				return pskip()
			}
		}
		if fn := c.p.staticCallee(x.Call); fn != nil {
			if pp, ok := c.p.putters[fn]; ok && pp[1] < len(x.Call.Args) {
				if r, ok := c.refOf(x.Call.Args[pp[1]]); ok {
					c.defers = append(c.defers, ev("put", pp[0], r, cm+"   [deferred]"))
					return pskip()
				}
			}
		}
		if ms := c.mentions(x.Call); len(ms) > 0 {
			var out []*pnode
			for _, r := range ms {
				out = append(out, ev("store", 0, r, cm+"   [deferred call mentions it]"))
			}
			return pseq(out...)
		}
		return pskip()
	}
	return pseq(pseq(pre...), c.exprEvents(s, skip), pseq(post...))
}

// longLived: an assignment target that outlives the call and is not part of the pooled object itself
func (c *fnCtx) longLived(lhs ast.Expr) bool {
	switch x := lhs.(type) {
	case *ast.Ident:
		o := c.obj(x)
		return o != nil && o.Parent() == c.p.tpkg.Scope()
	case *ast.ParenExpr:
		return c.longLived(x.X)
	}
	if _, ok := c.path(lhs); ok {
		if _, isT := c.trackedSel(lhs); !isT {
			return false // buf.data = …: a write into the pooled object
		}
	}
	return true
}

func (c *fnCtx) stmt(s ast.Stmt) *pnode {
	switch x := s.(type) {
	case nil:
		return pskip()
	case *ast.BlockStmt:
		return c.block(x.List)
	case *ast.LabeledStmt:
		return c.stmt(x.Stmt)
	case *ast.EmptyStmt:
		return pskip()
	case *ast.BranchStmt:
		if x.Tok == token.GOTO || x.Tok == token.FALLTHROUGH {
			c.g.errs = append(c.g.errs, fmt.Sprintf("%s: %s is not supported", c.p.line(x.Pos()), x.Tok))
		}
		return pskip()
	case *ast.ReturnStmt:
		cm := c.p.line(x.Pos())
		var evs []*pnode
		var esc []string
		seen := map[pref]bool{}
		for _, r := range x.Results {
			evs = append(evs, c.exprEvents(r, nil))
			if rr, ok := c.carries(r); ok && !seen[rr] {
				seen[rr] = true
				esc = append(esc, strings.Trim(rr.lean(), "()"))
			}
		}
		return pseq(pseq(evs...), pseq(c.deferred()...), &pnode{kind: "ret", text: strings.Join(esc, ", "), comment: cm})
	case *ast.IfStmt:
		els := pskip()
		if x.Else != nil {
			els = c.stmt(x.Else)
		}
		return pseq(c.simple(x.Init), c.exprEvents(x.Cond, nil), c.branches([]*pnode{c.block(x.Body.List), els}, c.p.line(x.Pos())))
	case *ast.SwitchStmt:
		return pseq(c.simple(x.Init), c.exprEvents(x.Tag, nil), c.clauses(x.Body, c.p.line(x.Pos())))
	case *ast.TypeSwitchStmt:
		return pseq(c.simple(x.Init), c.simple(x.Assign), c.clauses(x.Body, c.p.line(x.Pos())))
	case *ast.SelectStmt:
		return c.clauses(x.Body, c.p.line(x.Pos()))
	case *ast.ForStmt:
		cond := c.exprEvents(x.Cond, nil)
		l := ploop(pseq(cond, c.block(x.Body.List), c.simple(x.Post)))
		if l.kind == "loop" {
			l.comment = c.p.line(x.Pos())
		}
		return pseq(c.simple(x.Init), l, cond)
	case *ast.RangeStmt:
		l := ploop(c.block(x.Body.List))
		if l.kind == "loop" {
			l.comment = c.p.line(x.Pos())
		}
		return pseq(c.exprEvents(x.X, nil), l)
	default:
		return c.simple(s)
	}
}

func (c *fnCtx) branches(alts []*pnode, cm string) *pnode {
	a := palt(alts...)
	if a.kind == "alt" {
		a.comment = cm
	}
	return a
}

func (c *fnCtx) clauses(body *ast.BlockStmt, cm string) *pnode {
	var alts []*pnode
	var conds []*pnode
	hasDefault := false
	for _, cl := range body.List {
		switch cc := cl.(type) {
		case *ast.CaseClause:
			if cc.List == nil {
				hasDefault = true
			}
			for _, e := range cc.List {
				conds = append(conds, c.exprEvents(e, nil))
			}
			alts = append(alts, c.block(cc.Body))
		case *ast.CommClause:
			if cc.Comm == nil {
				hasDefault = true
			}
			alts = append(alts, pseq(c.simple(cc.Comm), c.block(cc.Body)))
		}
	}
	if !hasDefault {
		alts = append(alts, pskip())
	}
	return pseq(pseq(conds...), c.branches(alts, cm))
}

// ---- package level ------------------------------------------------------------------------------------------

func (p *poolPkg) directEvents(body ast.Node) bool {
	found := false
	inspectNoLit(body, func(n ast.Node) bool {
		switch x := n.(type) {
		case *ast.CallExpr:
			if _, _, ok := p.poolCall(x); ok {
				found = true
			}
			if fn := p.staticCallee(x); fn != nil {
				if _, ok := p.getters[fn]; ok {
					found = true
				}
				if _, ok := p.putters[fn]; ok {
					found = true
				}
			}
		case *ast.SelectorExpr:
			if o := p.info.Uses[x.Sel]; o != nil {
				if _, ok := p.tracked[o]; ok {
					found = true
				}
			}
		}
		return !found
	})
	return found
}

func (p *poolPkg) analyse(g *poolGen) {
	// 1. pools
	var poolObjs []types.Object
	for id, o := range p.info.Defs {
		if v, ok := o.(*types.Var); ok && !v.IsField() && isPoolType(v.Type()) {
			_ = id
			poolObjs = append(poolObjs, o)
		}
	}
	sort.Slice(poolObjs, func(i, j int) bool { return poolObjs[i].Pos() < poolObjs[j].Pos() })
	for _, o := range poolObjs {
		p.pools[o] = len(g.poolNames)
		ps := p.fset.Position(o.Pos())
		g.poolNames = append(g.poolNames, fmt.Sprintf("%s.%s (%s:%d)", p.name, o.Name(), filepath.Base(ps.Filename), ps.Line))
	}
	if len(p.pools) == 0 {
		return
	}
	// 2. wrappers (two rounds so that a wrapper of a wrapper is found)
	fns := make([]*types.Func, 0, len(p.decls))
	for fn := range p.decls {
		fns = append(fns, fn)
	}
	sort.Slice(fns, func(i, j int) bool { return fns[i].Pos() < fns[j].Pos() })
	for round := 0; round < 2; round++ {
		for _, fn := range fns {
			fd := p.decls[fn]
			params := map[types.Object]int{}
			i := 0
			for _, fl := range fd.Type.Params.List {
				for _, nm := range fl.Names {
					params[p.info.Defs[nm]] = i
					i++
				}
			}
			inspectNoLit(fd.Body, func(n ast.Node) bool {
				call, ok := n.(*ast.CallExpr)
				if !ok {
					return true
				}
				pool, idx := -1, -1
				if pid, m, ok := p.poolCall(call); ok && m == "Put" && len(call.Args) == 1 {
					pool, idx = pid, 0
				} else if f2 := p.staticCallee(call); f2 != nil {
					if pp, ok := p.putters[f2]; ok {
						pool, idx = pp[0], pp[1]
					}
				}
				if pool >= 0 && idx < len(call.Args) {
					if id, ok := call.Args[idx].(*ast.Ident); ok {
						if pi, isParam := params[p.info.Uses[id]]; isParam {
							p.putters[fn] = [2]int{pool, pi}
						}
					}
				}
				return true
			})
			// getter: has an acquisition whose variable is mentioned by a return
			c := &fnCtx{p: p, g: &poolGen{}, vars: map[types.Object]pref{}, roots: map[types.Object]bool{}, nextVar: new(int), varDoc: new([]string)}
			c.prepass(fd.Body)
			if len(c.roots) > 0 {
				pool := -1
				inspectNoLit(fd.Body, func(n ast.Node) bool {
					if as, ok := n.(*ast.AssignStmt); ok && len(as.Rhs) == 1 {
						if pid, _, ok := p.acquire(as.Rhs[0]); ok {
							pool = pid
						}
					}
					return true
				})
				inspectNoLit(fd.Body, func(n ast.Node) bool {
					if rs, ok := n.(*ast.ReturnStmt); ok {
						for _, r := range rs.Results {
							if _, ok := c.carries(r); ok && pool >= 0 {
								p.getters[fn] = pool
							}
						}
					}
					return true
				})
			}
		}
	}
	// 3. tracked fields
	for _, f := range p.files {
		ast.Inspect(f, func(n ast.Node) bool {
			as, ok := n.(*ast.AssignStmt)
			if !ok || len(as.Rhs) != 1 || len(as.Lhs) < 1 {
				return true
			}
			if _, _, ok := p.acquire(as.Rhs[0]); !ok {
				return true
			}
			if sel, ok := as.Lhs[0].(*ast.SelectorExpr); ok {
				if o, ok := p.info.Uses[sel.Sel].(*types.Var); ok && o.IsField() {
					if _, have := p.tracked[o]; !have {
						p.tracked[o] = len(g.fieldNames)
						owner := ""
						if s, ok := p.info.Selections[sel]; ok {
							owner = types.TypeString(s.Recv(), func(*types.Package) string { return "" }) + "."
						}
						g.fieldNames = append(g.fieldNames, p.name+"."+strings.TrimPrefix(owner, "*")+o.Name())
					}
				}
			}
			return true
		})
	}
	// 4. functions that touch pools / tracked fields, transitively through in-package static calls
	for _, fn := range fns {
		if p.directEvents(p.decls[fn].Body) {
			p.touching[fn] = true
		}
	}
	for changed := true; changed; {
		changed = false
		for _, fn := range fns {
			if p.touching[fn] {
				continue
			}
			inspectNoLit(p.decls[fn].Body, func(n ast.Node) bool {
				if call, ok := n.(*ast.CallExpr); ok {
					if f2 := p.staticCallee(call); f2 != nil && p.touching[f2] && !p.touching[fn] {
						p.touching[fn] = true
						changed = true
					}
				}
				return true
			})
		}
	}
	// 5. sites: declared functions that touch, and function literals with direct events
	emit := func(name string, pos token.Pos, body *ast.BlockStmt, self *types.Func) {
		nv := 0
		var doc []string
		c := &fnCtx{p: p, g: g, vars: map[types.Object]pref{}, roots: map[types.Object]bool{}, nextVar: &nv, varDoc: &doc}
		if self != nil {
			c.stack = []*types.Func{self}
		}
		b := c.function(body)
		if nv > g.maxVars {
			g.maxVars = nv
		}
		ps := p.fset.Position(pos)
		g.sites = append(g.sites, siteOut{name: name, doc: fmt.Sprintf("%s/%s:%d  vars: %s", p.name, filepath.Base(ps.Filename), ps.Line, strings.Join(doc, " ")), body: b})
	}
	for _, fn := range fns {
		fd := p.decls[fn]
		name := fn.Name()
		if fd.Recv != nil && len(fd.Recv.List) > 0 {
			var b bytes.Buffer
			printer.Fprint(&b, p.fset, fd.Recv.List[0].Type)
			name = leanName(b.String()) + "_" + name
		}
		if pp, ok := p.putters[fn]; ok {
			g.wrappers = append(g.wrappers, fmt.Sprintf("%s.%s: putter of pool %d (parameter %d); analysed at its call sites", p.name, name, pp[0], pp[1]))
			if !p.hasAcquire(fd.Body) {
				continue
			}
		}
		if pid, ok := p.getters[fn]; ok {
			g.wrappers = append(g.wrappers, fmt.Sprintf("%s.%s: getter of pool %d; a call `x = %s()` is `get %d x; use x` at its call sites, and it is a site itself", p.name, name, pid, fn.Name(), pid))
		}
		if p.touching[fn] {
			emit(p.name+"_"+name, fd.Pos(), fd.Body, fn)
		}
		// function literals with direct events
		k := 0
		ast.Inspect(fd.Body, func(n ast.Node) bool {
			if fl, ok := n.(*ast.FuncLit); ok {
				k++
				if p.directEvents(fl.Body) {
					emit(fmt.Sprintf("%s_%s_func%d", p.name, name, k), fl.Pos(), fl.Body, nil)
				}
			}
			return true
		})
	}
}

func (p *poolPkg) hasAcquire(body ast.Node) bool {
	found := false
	inspectNoLit(body, func(n ast.Node) bool {
		if e, ok := n.(ast.Expr); ok {
			if _, _, ok := p.acquire(e); ok {
				found = true
			}
		}
		return !found
	})
	return found
}

func emitPools(w io.Writer, repo string) error {
	g := &poolGen{}
	var dirs []pkgSpec
	for _, n := range []string{"json", "proto", "thrift"} {
		dirs = append(dirs, pkgSpec{n, filepath.Join(repo, n)})
	}
	filepath.Walk(filepath.Join(repo, "internal"), func(path string, fi os.FileInfo, err error) error {
		if err == nil && fi.IsDir() && path != filepath.Join(repo, "internal") {
			if ms, _ := filepath.Glob(filepath.Join(path, "*.go")); len(ms) > 0 {
				rel, _ := filepath.Rel(repo, path)
				dirs = append(dirs, pkgSpec{strings.ReplaceAll(rel, string(filepath.Separator), "_"), path})
			}
		}
		return nil
	})
	for _, d := range dirs {
		if _, err := os.Stat(d.dir); err != nil {
			continue
		}
		// cheap pre-filter: no mention of sync.Pool, nothing to do (avoids type-checking the package)
		has := false
		ms, _ := filepath.Glob(filepath.Join(d.dir, "*.go"))
		for _, m := range ms {
			if strings.HasSuffix(m, "_test.go") {
				continue
			}
			if b, err := os.ReadFile(m); err == nil && bytes.Contains(b, []byte("sync.Pool")) {
				has = true
			}
		}
		if !has {
			continue
		}
		p, err := loadPoolPkg(d.name, d.dir)
		if err != nil {
			return err
		}
		p.analyse(g)
	}
	if len(g.errs) > 0 {
		return fmt.Errorf("pools: unsupported constructs:\n  %s", strings.Join(g.errs, "\n  "))
	}
	var b bytes.Buffer
	b.WriteString("/- GENERATED by tools/extract (pools.go) from /repo's working tree. DO NOT EDIT.\n")
	b.WriteString("   Skeletons, over sync.Pool events, of every function that obtains a pooled object or touches a field holding one. -/\n")
	b.WriteString("import Enc.Model.Conc.Pool\nnamespace Enc.Gen.Pools\nopen Enc.Model.Conc.Pool\n\n")
	b.WriteString("/-- pool ids -/\ndef poolNames : List String := [")
	for i, n := range g.poolNames {
		if i > 0 {
			b.WriteString(", ")
		}
		fmt.Fprintf(&b, "%q", n)
	}
	b.WriteString("]\n/-- field slots: struct fields that hold a pooled object across calls -/\ndef fieldNames : List String := [")
	for i, n := range g.fieldNames {
		if i > 0 {
			b.WriteString(", ")
		}
		fmt.Fprintf(&b, "%q", n)
	}
	fmt.Fprintf(&b, "]\ndef numVars : Nat := %d\ndef numFields : Nat := %d\n\n", g.maxVars, len(g.fieldNames))
	for _, wr := range g.wrappers {
		fmt.Fprintf(&b, "-- wrapper  %s\n", wr)
	}
	b.WriteString("\n")
	for _, s := range g.sites {
		fmt.Fprintf(&b, "/-- go: %s -/\ndef site_%s : PProg :=\n", s.doc, s.name)
		s.body.print(&b, "  ", true)
		b.WriteString("\n")
	}
	b.WriteString("def allSites : List (String × PProg) := [\n")
	for i, s := range g.sites {
		c := ","
		if i == len(g.sites)-1 {
			c = ""
		}
		fmt.Fprintf(&b, "  (%q, site_%s)%s\n", s.name, s.name, c)
	}
	b.WriteString("]\n\nend Enc.Gen.Pools\n")
	_, err := w.Write(b.Bytes())
	return err
}
