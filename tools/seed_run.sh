#!/bin/bash
# seed_run.sh <seed id e.g. C01a> [props...]: apply the seeded change to /repo, run the quick checks of the given
# properties (default: the property the change was written against), undo it, record the outcome in seeded/<id>/result.json
set -u
ID=$1; shift
P=${ID:0:3}
PROPS=${@:-$P}
D=/verif/seeded/$ID
cd /verif
git -C /repo diff --quiet || { echo "/repo not clean"; exit 2; }
git -C /repo apply --3way $D/patch.diff 2>/tmp/seed_apply.err || git -C /repo apply $D/patch.diff || { echo "$ID: patch does not apply to /repo HEAD"; cat /tmp/seed_apply.err | tail -3; git -C /repo checkout -- .; exit 2; }
git -C /repo reset -q 2>/dev/null
res="{"
for p in $PROPS; do
  out=$(timeout 3000 ./check $p quick 2>&1); rc=$?
  line=$(echo "$out" | grep -m1 "^VIOLATION" || true)
  echo "$ID $p rc=$rc ${line:0:160} | $(echo "$out" | tail -1 | cut -c1-160)"
  [ -n "$line" ] && cp "$(echo "$line" | sed 's/.*replay=\([^ ]*\).*/\1/')" $D/replay-$p.json 2>/dev/null
  res="$res\"$p\":{\"rc\":$rc,\"violation\":\"$(echo "$line" | sed 's/"/\\"/g')\"},"
done
git -C /repo checkout -- . ; git -C /repo clean -fdq
echo "${res%,}}" > $D/result.json
git -C /repo diff --quiet && echo "$ID: /repo restored"
