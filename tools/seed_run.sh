#!/bin/bash
# seed_run.sh <seed id e.g. C01a> [props...]: apply the seeded change to a SCRATCH COPY of /repo's HEAD (a git worktree
# under /tmp/seedwt; /repo itself stays untouched so that other work reading it is not disturbed), run the quick checks of
# the given properties (default: the property the change was written against) with VERIF_REPO pointing at the copy, remove
# the copy, record the outcome in seeded/<id>/result.json. (`git -C /repo apply <patch>; ./check …; git -C /repo checkout -- .`
# is the equivalent in-place procedure.)
set -u
ID=$1; shift
P=${ID:0:3}
PROPS=${@:-$P}
D=/verif/seeded/$ID
WT=/tmp/seedwt
cd /verif
git -C /repo worktree remove --force $WT 2>/dev/null; rm -rf $WT
git -C /repo worktree add -q --detach $WT HEAD || exit 2
git -C $WT apply --check $D/patch.diff 2>/tmp/seed_apply.err || { echo "$ID: patch does not apply to /repo HEAD"; tail -3 /tmp/seed_apply.err; git -C /repo worktree remove --force $WT; exit 2; }
git -C $WT apply $D/patch.diff
res="{"
for p in $PROPS; do
  out=$(VERIF_REPO=$WT timeout 3000 ./check $p quick 2>&1); rc=$?
  line=$(echo "$out" | grep -m1 "^VIOLATION" || true)
  echo "$ID $p rc=$rc ${line:0:160} | $(echo "$out" | tail -1 | cut -c1-160)"
  [ -n "$line" ] && cp "$(echo "$line" | sed 's/.*replay=\([^ ]*\).*/\1/')" $D/replay-$p.json 2>/dev/null
  res="$res\"$p\":{\"rc\":$rc,\"violation\":\"$(echo "$line" | sed 's/"/\\"/g')\"},"
done
git -C /repo worktree remove --force $WT; git -C /repo worktree prune
echo "${res%,}}" > $D/result.json
