#!/bin/bash
# integrate.sh <agent dir> : apply what an agent changed in its private copies (lean/, harness/) relative to the base snapshot
# /tmp/ag/base (= the commit the copies were taken from) onto /verif, as a patch (so that several agents' edits to shared files merge).
set -u
A=$1
cd /tmp/ag
for sub in lean harness; do
  (cd /tmp/ag && diff -ruN -x .lake -x Consts.lean -x anchors.json -x go.sum -x lake-manifest.json -x Pools.lean -x AsmConsts.lean ${BASE:-base}/$sub $(realpath --relative-to=/tmp/ag $A)/$sub) > /tmp/ag/patch.$sub.$(basename $A).diff
  n=$(grep -c '^+++ ' /tmp/ag/patch.$sub.$(basename $A).diff)
  echo "$sub: $n files changed"
  grep '^+++ ' /tmp/ag/patch.$sub.$(basename $A).diff | awk '{print "   " $2}'
  if [ "$n" != "0" ]; then (cd /verif && patch -p1 --no-backup-if-mismatch < /tmp/ag/patch.$sub.$(basename $A).diff) || echo "PATCH PROBLEM in $sub"; fi
done
