#!/usr/bin/env python3
"""Generate the §10 table of DESIGN.md from seeded/<id>/{meta.json,result.json}; replaces the block between the markers."""
import json, os, glob, re
rows = []
for d in sorted(glob.glob('/verif/seeded/C*')):
    sid = os.path.basename(d)
    try:
        meta = json.load(open(d + '/meta.json'))
    except Exception:
        meta = {}
    res = {}
    if os.path.exists(d + '/result.json'):
        try:
            res = json.load(open(d + '/result.json'))
        except Exception:
            res = {}
    outcome = []
    for p, r in res.items():
        v = r.get('violation', '')
        if r.get('rc') == 0:
            outcome.append(f'{p}: **missed**')
        elif 'no-failing-input-found' in v:
            outcome.append(f'{p}: caught (drift / proof, no failing input)')
        elif v:
            outcome.append(f'{p}: caught with failing input')
        else:
            outcome.append(f'{p}: check failed rc={r.get("rc")}')
    note = ''
    if os.path.exists(d + '/note.txt'):
        note = open(d + '/note.txt').read().strip()
    summ = (meta.get('summary') or '').replace('|', '/').replace('\n', ' ')
    mech = (meta.get('mechanism') or '').replace('|', '/').replace('\n', ' ')
    rows.append(f'| {sid} | {mech[:70]} | {summ[:150]} | {"; ".join(outcome) or "not run"}{(" — " + note) if note else ""} |')
table = '| id | mechanism | change | outcome of the quick check |\n|---|---|---|---|\n' + '\n'.join(rows)
p = '/verif/DESIGN.md'
s = open(p).read()
if 'SEEDED_TABLE_PLACEHOLDER' in s:
    s = s.replace('SEEDED_TABLE_PLACEHOLDER', '<!-- seeded-table-begin -->\n' + table + '\n<!-- seeded-table-end -->')
else:
    s = re.sub(r'<!-- seeded-table-begin -->.*?<!-- seeded-table-end -->', '<!-- seeded-table-begin -->\n' + table.replace('\\', '\\\\') + '\n<!-- seeded-table-end -->', s, flags=re.S)
open(p, 'w').write(s)
print(len(rows), 'rows')
