module asmconsts

go 1.21
